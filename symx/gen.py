#!/usr/bin/env python3
"""Regenerate the SYMX crate from /repo's *current working tree*.

Copies /repo/src, /repo/tests, Cargo.toml, Cargo.lock into /verif/work/symx and
applies a fixed list of textual rewrite rules (R*) and add-only instrumentation
(I*).  Every rule must match exactly once; otherwise we stop with exit code 2
("INCONCLUSIVE: source shape changed") -- never a pass, never a VIOLATION.

The rules only change types at function boundaries and the three call sites that
cross into regex-automata; instruction semantics, the State log and the main loop
are compiled from the repository's text unchanged.
"""
import hashlib
import json
import os
import shutil
import sys

REPO = os.environ.get("VERIF_REPO", "/repo")
HERE = os.path.dirname(os.path.abspath(__file__))
WORK = os.environ.get("VERIF_WORK", os.path.join(os.path.dirname(HERE), "work"))
OUT = os.path.join(WORK, "symx")

# (rule id, file, old text, new text)
RULES = [
    # ---- vm.rs: make run generic over the text type ------------------------
    ("R1", "vm.rs",
     "pub(crate) fn run(\n    prog: &Prog,\n    s: &str,\n    pos: usize,\n    option_flags: u32,\n    options: &RegexOptions,\n) -> Result<Option<Vec<usize>>> {\n",
     "pub(crate) fn run<T: Text + ?Sized>(\n    prog: &Prog,\n    s: &T,\n    pos: usize,\n    option_flags: u32,\n    options: &RegexOptions,\n) -> Result<Option<Vec<usize>>>\nwhere\n    Look: LookOn<T::Bytes>,\n{\n"
     "    if let Some(r) = crate::symx_api::intercept(prog, s.len(), pos, option_flags, options) {\n        return r;\n    }\n"
     "    let _symx_guard = crate::symx_api::RunGuard::enter(prog.n_saves);\n"),
    ("R2", "vm.rs",
     "fn codepoint_len_at(s: &str, ix: usize) -> usize {",
     "fn codepoint_len_at<T: Text + ?Sized>(s: &T, ix: usize) -> usize {"),
    ("R3", "vm.rs",
     "fn matches_literal(s: &str, ix: usize, end: usize, literal: &str) -> bool {",
     "fn matches_literal<T: Text + ?Sized, L: LitLike + ?Sized>(s: &T, ix: usize, end: usize, literal: &L) -> bool\nwhere\n    T::Bytes: PartialEq<L::LBytes>,\n{"),
    ("R4", "vm.rs",
     "let look_matcher = LookMatcher::new();",
     "let look_matcher = Look::new();"),
    ("R5", "vm.rs",
     "                    let input = Input::new(s).span(ix..s.len()).anchored(Anchored::Yes);\n",
     ""),
    ("R6", "vm.rs",
     "                        match inner.search_half(&input) {\n                            Some(m) => ix = m.offset(),",
     "                        match s.search_half(inner, pattern, ix) {\n                            Some(m) => ix = m,"),
    ("R7", "vm.rs",
     "if inner.search_slots(&input, &mut inner_slots).is_some() {",
     "if s.search_slots(inner, pattern, ix, &mut inner_slots) {"),
    ("R7b", "vm.rs",
     "                    ref inner,\n                    pattern: _,\n",
     "                    ref inner,\n                    ref pattern,\n"),
    # (the import is added after the first of these lines that is present exactly once)
    ("R7c", "vm.rs",
     ["use crate::{codepoint_len, RegexOptions};\n", "use crate::Result;\n", "use crate::Error;\n", "use crate::Assertion;\n"],
     "{anchor}#[allow(unused_imports)]\nuse crate::symtext::{ByteLike, LitLike, Look, LookOn, Text};\n"),
    # ---- lib.rs helpers ----------------------------------------------------
    ("R8", "lib.rs",
     "fn prev_codepoint_ix(s: &str, mut ix: usize) -> usize {",
     "fn prev_codepoint_ix<T: crate::symtext::Text + ?Sized>(s: &T, mut ix: usize) -> usize {"),
    ("R8b", "lib.rs",
     "if (bytes[ix] as i8) >= -0x40 {",
     "if crate::symtext::ByteLike::ge_i8(bytes[ix], -0x40) {"),
    ("R8c", "lib.rs",
     "    let bytes = s.as_bytes();\n    loop {\n        ix -= 1;",
     "    let bytes = crate::symtext::LitLike::as_bytes(s);\n    loop {\n        ix -= 1;"),
    ("R9", "lib.rs",
     "fn codepoint_len(b: u8) -> usize {",
     "fn codepoint_len<B: Copy + PartialOrd<u8>>(b: B) -> usize {"),
    ("R10", "lib.rs",
     "mod vm;\n",
     "mod vm;\n#[allow(missing_docs, missing_debug_implementations)]\npub mod symtext;\n#[allow(missing_docs, missing_debug_implementations)]\npub mod engine;\n#[allow(missing_docs, missing_debug_implementations)]\npub mod hirmodel;\n#[allow(missing_docs, missing_debug_implementations)]\npub mod refsem;\n#[allow(missing_docs, missing_debug_implementations)]\npub mod corpus;\n#[allow(missing_docs, missing_debug_implementations)]\npub mod props;\n#[allow(missing_docs, missing_debug_implementations)]\npub mod props2;\n#[allow(missing_docs, missing_debug_implementations)]\npub mod props3;\n#[allow(missing_docs, missing_debug_implementations)]\npub mod exprgen;\n#[allow(missing_docs, missing_debug_implementations)]\npub mod unparse;\n#[allow(missing_docs, missing_debug_implementations)]\npub mod symtpl;\n#[allow(missing_docs, missing_debug_implementations)]\npub mod props4;\n#[allow(missing_docs, missing_debug_implementations)]\npub mod symx_api;\n"),
    # ---- lib.rs: the three calls of the wrapped automaton -------------------
    # R11-R13 (the calls of the wrapped automaton in lib.rs) are applied by regex: see
    # shim_wrapped_calls below.
    # ---- instrumentation (add-only, in the copy only) ----------------------
    ("I1", "vm.rs",
     "        'fail: loop {\n",
     "        'fail: loop {\n            crate::symx_api::vm_step();\n"),
    ("I2", "vm.rs",
     "        backtrack_count += 1;\n",
     "        backtrack_count += 1;\n        crate::symx_api::vm_backtrack();\n"),
    ("I2b", "vm.rs",
     "        let (newpc, newix) = state.pop();\n",
     "        let (newpc, newix) = state.pop();\n        crate::symx_api::vm_resume();\n"),
    ("I4", "compile.rs",
     "pub(crate) fn compile_inner(inner_re: &str, options: &RegexOptions) -> Result<RaRegex> {\n",
     "pub(crate) fn compile_inner(inner_re: &str, options: &RegexOptions) -> Result<RaRegex> {\n    crate::symx_api::note_delegate(inner_re, &options.syntaxc);\n"),
    # State shadow model (C20): hooks after every State operation.
    ("I3a", "vm.rs",
     "            self.stack.push(Branch { pc, ix, nsave });\n            self.nsave = 0;\n",
     "            self.stack.push(Branch { pc, ix, nsave });\n            self.nsave = 0;\n            crate::symx_api::shadow_push(pc, ix, &self.saves, self.stack.len());\n"),
    ("I3b", "vm.rs",
     "        let Branch { pc, ix, nsave } = self.stack.pop().unwrap();\n        self.nsave = nsave;\n",
     "        let Branch { pc, ix, nsave } = self.stack.pop().unwrap();\n        self.nsave = nsave;\n        crate::symx_api::shadow_pop(pc, ix, &self.saves, self.stack.len());\n"),
    ("I3d", "vm.rs",
     "    fn backtrack_cut(&mut self, count: usize) {\n",
     "    fn backtrack_cut(&mut self, count: usize) {\n        crate::symx_api::shadow_cut_enter(count);\n"),
    ("I3e", "vm.rs",
     "    fn save(&mut self, slot: usize, val: usize) {\n",
     "    fn save(&mut self, slot: usize, val: usize) {\n        crate::symx_api::shadow_save(slot, val);\n"),
    ("I3f", "vm.rs",
     "    fn stack_push(&mut self, val: usize) {\n",
     "    fn stack_push(&mut self, val: usize) {\n        let _symx_scope = crate::symx_api::OpScope::enter();\n"),
    ("I3g", "vm.rs",
     "    fn stack_pop(&mut self) -> usize {\n",
     "    fn stack_pop(&mut self) -> usize {\n        let _symx_scope = crate::symx_api::OpScope::enter();\n"),
    ("I3h", "vm.rs",
     "                    state.stack_push(count);\n",
     "                    state.stack_push(count);\n                    crate::symx_api::shadow_stack_pushed(count);\n"),
    ("I3i", "vm.rs",
     "                    let count = state.stack_pop();\n",
     "                    let count = state.stack_pop();\n                    crate::symx_api::shadow_stack_popped(count);\n"),
    ("I3j", "vm.rs",
     "                Insn::FailNegativeLookAround => {\n",
     "                Insn::FailNegativeLookAround => {\n                    crate::symx_api::shadow_neg_enter(pc);\n"),
    ("I3c", "vm.rs",
     "        self.stack.truncate(count);\n        self.oldsave.truncate(oldsave_ix);\n        self.nsave = oldsave_ix - oldsave_start;\n",
     "        self.stack.truncate(count);\n        self.oldsave.truncate(oldsave_ix);\n        self.nsave = oldsave_ix - oldsave_start;\n        crate::symx_api::shadow_cut(count, &self.saves, self.stack.len());\n"),
]

# rules whose absence is tolerated (instrumentation for a single property): the
# property that needs them reports INCONCLUSIVE itself.
# Concretise mode: the small byte helpers keep their original, non-generic text; generic
# wrappers of the same name call them on the concrete text or, for a symbolic text, on its
# lexicographically smallest instance under the current path condition.  Used when the
# helpers cannot be made generic (a rule below does not match, or the generic build fails).
GENERIC_HELPER_RULES = ["R2", "R3", "R8", "R8b", "R8c", "R9"]
CONCRETISE_RULES = [
    ("H2", "vm.rs",
     "fn codepoint_len_at(s: &str, ix: usize) -> usize {",
     "fn codepoint_len_at<T: Text + ?Sized>(s: &T, ix: usize) -> usize {\n    match s.as_str() {\n        Some(x) => codepoint_len_at_orig(x, ix),\n        None => codepoint_len_at_orig(&s.representative(), ix),\n    }\n}\n\nfn codepoint_len_at_orig(s: &str, ix: usize) -> usize {"),
    ("H3", "vm.rs",
     "fn matches_literal(s: &str, ix: usize, end: usize, literal: &str) -> bool {",
     "fn matches_literal<T: Text + ?Sized, L: LitLike + ?Sized>(s: &T, ix: usize, end: usize, literal: &L) -> bool\nwhere\n    T::Bytes: PartialEq<L::LBytes>,\n{\n    match (s.as_str(), literal.lit_str()) {\n        (Some(a), Some(l)) => matches_literal_orig(a, ix, end, l),\n        _ => end <= s.len() && &s.as_bytes()[ix..end] == literal.as_bytes(),\n    }\n}\n\n#[inline]\nfn matches_literal_orig(s: &str, ix: usize, end: usize, literal: &str) -> bool {"),
    ("H8", "lib.rs",
     "fn prev_codepoint_ix(s: &str, mut ix: usize) -> usize {",
     "fn prev_codepoint_ix<T: crate::symtext::Text + ?Sized>(s: &T, ix: usize) -> usize {\n    match s.as_str() {\n        Some(x) => prev_codepoint_ix_orig(x, ix),\n        None => prev_codepoint_ix_orig(&s.representative(), ix),\n    }\n}\n\nfn prev_codepoint_ix_orig(s: &str, mut ix: usize) -> usize {"),
]

# (rule that may be missing, rule to skip as well, replacement rule applied instead)
FALLBACKS = {
    "R8b": ("R8c", ("R8c-fallback", "lib.rs",
            "    let bytes = s.as_bytes();\n    loop {\n        ix -= 1;",
            "    let bytes_owned = crate::symtext::Text::representative_bytes(s);\n    let bytes: &[u8] = &bytes_owned;\n    loop {\n        ix -= 1;")),
}


# ---- template scanner (C12): expand.rs / parse_id / parse_decimal generic over TStr --------
# An all-or-nothing group: if any rule does not match, none is applied, the crate is built
# without the `symx_tpl` feature and the C12 check reports INCONCLUSIVE by itself.
# (rule id, file, old, new, mode)  mode: "one" exactly once | "all" every occurrence (>= 1)
TPL_RULES = [
    ("T1", "expand.rs", "use crate::parse::{parse_decimal, parse_id};\n",
     "use crate::parse::{parse_decimal, parse_id};\n#[allow(unused_imports)]\nuse crate::symtext::{LitLike, Text};\n#[allow(unused_imports)]\nuse crate::symtpl::{TChar, TCharsAsStr, TStr};\n", "one"),
    ("T2", "expand.rs", "template: &str", "template: &(impl TStr + ?Sized)", "all"),
    ("T3", "expand.rs",
     "fn exec<'t, E>(\n        &self,\n        template: &'t str,\n        mut f: impl FnMut(Step<'t>) -> Result<(), E>,",
     "fn exec<'t, S: TStr + ?Sized, E>(\n        &self,\n        template: &'t S,\n        mut f: impl FnMut(Step<'t, S>) -> Result<(), E>,", "one"),
    ("T4", "expand.rs",
     "enum Step<'a> {\n    Char(char),\n    GroupName(&'a str),",
     "enum Step<'a, S: TStr + ?Sized> {\n    Char(S::Ch),\n    GroupName(&'a S),", "one"),
    ("T5", "expand.rs", "Step::Char(self.sub_char)", "Step::Char(<S::Ch as TChar>::from_char(self.sub_char))", "all"),
    ("T6", "expand.rs", "contains_key(name)", "contains_key(&*name.t_conc())", "all"),
    ("T7", "expand.rs", "captures.name(name)", "captures.name(&name.t_conc())", "all"),
    ("T8", "expand.rs",
     "pub fn escape<'a>(&self, text: &'a str) -> Cow<'a, str> {",
     "pub fn escape<'a, S: TStr + ?Sized>(&self, text: &'a S) -> Cow<'a, S> {", "one"),
    ("T10", "parse.rs",
     "pub(crate) fn parse_decimal(s: &str, ix: usize) -> Option<(usize, usize)> {",
     "pub(crate) fn parse_decimal<S: crate::symtpl::TStr + ?Sized>(s: &S, ix: usize) -> Option<(usize, usize)> {", "one"),
    ("T11", "parse.rs", "usize::from_str_radix(&s[ix..end], 10)", "<S as crate::symtpl::TStr>::from_str_radix(&s[ix..end], 10)", "one"),
    ("T12", "parse.rs",
     "pub(crate) fn parse_id<'a>(\n    s: &'a str,",
     "pub(crate) fn parse_id<'a, S: crate::symtpl::TStr + ?Sized>(\n    s: &'a S,", "one"),
    ("T12b", "parse.rs", ") -> Option<(&'a str, usize)> {", ") -> Option<(&'a S, usize)> {", "one"),
    # the two pure predicates stay the repository's functions; on a symbolic character / byte
    # they are answered from a table made by calling them on every value (symtpl::tabulate)
    ("T13", "parse.rs", "fn is_id_char(c: char) -> bool {", "pub(crate) fn is_id_char(c: char) -> bool {", "one"),
    ("T14", "parse.rs", "is_id_char(*ch)", "crate::symtpl::TChar::test(*ch, is_id_char, crate::symtpl::ID_CHAR_CLS_ID)", "all"),
    ("T15", "parse.rs", "is_digit(s.as_bytes()[end])", "crate::symtpl::test_byte(s.as_bytes()[end], is_digit)", "one"),
    ("T16", "parse.rs", "use crate::{", "#[allow(unused_imports)]\nuse crate::symtext::{LitLike as _};\n#[allow(unused_imports)]\nuse crate::symtpl::{TChar as _, TStr as _};\nuse crate::{", "first"),
    ("T20", "lib.rs", "pub fn expand(&self, replacement: &str, dst: &mut String) {",
     "pub fn expand(&self, replacement: &(impl crate::symtpl::TStr + ?Sized), dst: &mut String) {", "one"),
]


def shim_wrapped_calls(txt):
    """lib.rs: every call `inner.search(..)`, `inner.is_match(..)`, `inner.captures(..)`,
    `inner.search_half(..)`, `inner.find(..)` of the wrapped regex-automata regex goes through
    symx_api::RaShim, which reads the Input the repository's code built (haystack, span,
    anchored) and answers from the model when a symbolic session is installed.  Everything
    around the call is the repository's text."""
    import re
    pat = re.compile(r"\binner(\s*)\.(search|search_half|is_match|captures|find)\(")
    new, n = pat.subn(lambda m: "crate::symx_api::RaShim(inner)%s.%s(" % (m.group(1), m.group(2)), txt)
    return new, n


def apply_template_rules(files):
    new = dict(files)
    for rid, fname, old, repl, mode in TPL_RULES:
        txt = new.get(fname)
        if txt is None:
            return None, rid
        n = txt.count(old)
        if mode == "one" and n != 1:
            return None, rid
        if mode in ("all", "first") and n < 1:
            return None, rid
        new[fname] = txt.replace(old, repl, 1) if mode == "first" else txt.replace(old, repl)
    return new, None


OPTIONAL = {"I3a", "I3b", "I3c", "I3d", "I3e", "I3f", "I3g", "I3h", "I3i", "I3j"}


def die(msg):
    print("INCONCLUSIVE: " + msg)
    sys.exit(2)


def tree_hash(root):
    h = hashlib.sha256()
    for d, _, fs in sorted(os.walk(root)):
        for f in sorted(fs):
            p = os.path.join(d, f)
            h.update(p.encode())
            with open(p, "rb") as fh:
                h.update(fh.read())
    return h.hexdigest()


def main():
    os.makedirs(OUT, exist_ok=True)
    src_out = os.path.join(OUT, "src")
    files = {}
    for f in sorted(os.listdir(os.path.join(REPO, "src"))):
        if f.endswith(".rs"):
            with open(os.path.join(REPO, "src", f)) as fh:
                files[f] = fh.read()
    applied, missing = [], []
    rules = list(RULES)
    concretise = "--concretise" in sys.argv
    if not concretise:
        for rid in GENERIC_HELPER_RULES:
            r = next(x for x in rules if x[0] == rid)
            if files.get(r[1], "").count(r[2]) != 1:
                concretise = True
                missing.append(rid + " (helpers concretised)")
    if concretise:
        rules = [x for x in rules if x[0] not in GENERIC_HELPER_RULES] + CONCRETISE_RULES
    # fallbacks: decided before anything is rewritten
    for rid, (also_skip, repl) in FALLBACKS.items():
        if concretise:
            break
        r = next(x for x in rules if x[0] == rid)
        if files.get(r[1], "").count(r[2]) != 1:
            rules = [x for x in rules if x[0] not in (rid, also_skip)] + [repl]
            missing.append(rid + " (fallback " + repl[0] + ")")
    for rid, fname, old, new in rules:
        if isinstance(old, list):
            # alternative anchors
            pick = next((a for a in old if files.get(fname, "").count(a) == 1), None)
            if pick is None:
                die("source shape changed at %s: none of the alternative anchors is present in src/%s" % (rid, fname))
            old, new = pick, new.replace("{anchor}", pick)
        if fname not in files:
            die("source shape changed at %s: no file src/%s" % (rid, fname))
        n = files[fname].count(old)
        if n != 1:
            if rid in OPTIONAL:
                missing.append(rid)
                continue
            die("source shape changed at %s: pattern occurs %d times in src/%s" % (rid, n, fname))
        files[fname] = files[fname].replace(old, new)
        applied.append(rid)
    files["lib.rs"], nshim = shim_wrapped_calls(files["lib.rs"])
    if nshim < 3:
        die("source shape changed at R11-R13: only %d calls of the wrapped automaton found in src/lib.rs" % nshim)
    applied.append("R11-R13(x%d)" % nshim)
    if "--no-template-rules" in sys.argv:
        tpl_files, tpl_missing = None, "switched off (--no-template-rules: the rewritten scanner did not compile)"
    else:
        tpl_files, tpl_missing = apply_template_rules(files)
    template_rules = tpl_files is not None
    if template_rules:
        files = tpl_files
        applied += [r[0] for r in TPL_RULES]
    else:
        missing.append("template rules (failed at %s)" % tpl_missing)
    # overlay modules
    for f in sorted(os.listdir(os.path.join(HERE, "overlay"))):
        with open(os.path.join(HERE, "overlay", f)) as fh:
            files[f] = fh.read()
    # write only when changed (keeps cargo's incremental cache warm)
    os.makedirs(src_out, exist_ok=True)
    for f in os.listdir(src_out):
        if f.endswith(".rs") and f not in files:
            os.remove(os.path.join(src_out, f))
    for f, txt in files.items():
        p = os.path.join(src_out, f)
        if not os.path.exists(p) or open(p).read() != txt:
            with open(p, "w") as fh:
                fh.write(txt)
    os.makedirs(os.path.join(src_out, "bin"), exist_ok=True)
    bin_txt = "fn main() {\n    fancy_regex::symx_api::main();\n}\n"
    p = os.path.join(src_out, "bin", "symx.rs")
    if not os.path.exists(p) or open(p).read() != bin_txt:
        open(p, "w").write(bin_txt)
    # Cargo.toml: the repository's, plus the bin target
    with open(os.path.join(REPO, "Cargo.toml")) as fh:
        cargo = fh.read()
    cargo = cargo.replace('[[bench]]\nname = "bench"\nharness = false\n', "")
    if 'default = [' not in cargo or "[features]\n" not in cargo:
        die("Cargo.toml has no [features] default list")
    cargo = cargo.replace("[features]\n", "[features]\nsymx_tpl = []\n", 1)
    if template_rules:
        cargo = cargo.replace('default = [', 'default = ["symx_tpl", ', 1)
    cargo += '\n[[bin]]\nname = "symx"\npath = "src/bin/symx.rs"\n\n[profile.dev]\nopt-level = 1\noverflow-checks = true\ndebug-assertions = true\n\n[profile.release]\noverflow-checks = true\ndebug = false\n\n[workspace]\n'
    p = os.path.join(OUT, "Cargo.toml")
    if not os.path.exists(p) or open(p).read() != cargo:
        open(p, "w").write(cargo)
    shutil.copyfile(os.path.join(REPO, "Cargo.lock"), os.path.join(OUT, "Cargo.lock"))
    # tests (translator validation: the repo's own suite must pass on the rewritten tree)
    tdst = os.path.join(OUT, "tests")
    if os.path.exists(tdst):
        shutil.rmtree(tdst)
    shutil.copytree(os.path.join(REPO, "tests"), tdst)
    meta = {
        "rules_applied": applied,
        "helpers_concretised": concretise,
        "template_rules": template_rules,
        "rules_missing_optional": missing,
        "repo_src_sha256": tree_hash(os.path.join(REPO, "src")),
        "overlay_sha256": tree_hash(os.path.join(HERE, "overlay")),
        "tests_sha256": tree_hash(os.path.join(REPO, "tests")),
    }
    with open(os.path.join(OUT, "gen_meta.json"), "w") as fh:
        json.dump(meta, fh, indent=1)
    print(json.dumps(meta))


if __name__ == "__main__":
    main()
