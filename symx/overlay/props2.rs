//! More property oracles: twin programs (C03, C14, C19), backtrack limits (C07),
//! size facts and look-behind (C13), state discipline (C20), escape (C17),
//! agreement with the regex crate's semantics (C04).
//!
//! This file is part of /verif (overlay), not of the repository.

use std::cell::RefCell;
use std::collections::BTreeSet;
use std::string::String;
use std::vec::Vec;

use crate::analyze::Info;
use crate::corpus::{self, Item, Rng, WorkList};
use crate::hirmodel::{self, HProg};
use crate::props::{drive, parse_raw, ref_canon, Body, Fail, Obs, PatReport, REF_STEP_CAP};
use crate::refsem::{self, Outcome, RProg, R};
use crate::symtext::{Cls, Text};
use crate::symx_api::{self, Built, RunCfg, VmRes};
use crate::unparse::{self, Style};
use crate::Expr;

fn union_classes(a: &[Cls], b: &[Cls]) -> Vec<Cls> {
    let mut v: Vec<Cls> = a.to_vec();
    for c in b {
        if !v.iter().any(|x| x.id == c.id) {
            v.push(c.clone());
        }
    }
    v
}

fn build_or_status(pattern: &str, casei: bool, rep: &mut PatReport) -> Option<Built> {
    match symx_api::build(pattern, casei, None) {
        Ok(b) => Some(b),
        Err(e) => {
            if e.starts_with("SYMX") {
                rep.status = std::format!("error:{}", e);
            } else {
                rep.status = std::format!("rejected:{}", e);
            }
            None
        }
    }
}

// ---------------------------------------------------------------------------
// twin programs: two builds must answer identically on every text

pub struct PairBody<'a> {
    pub a: &'a Built,
    pub b: &'a Built,
    pub casei_a: bool,
    pub what: &'a str,
}

impl<'a> Body for PairBody<'a> {
    fn run<T: Text + ?Sized>(&self, t: &T, pos: usize) -> Obs {
        let mut o = Obs::default();
        let ra = symx_api::search(self.a, t, pos, 0);
        let rb = symx_api::search(self.b, t, pos, 0);
        o.items.push(ra.canon());
        o.items.push(rb.canon());
        o.matched = matches!(ra, VmRes::Match(_));
        if ra != rb {
            o.fail = Some(Fail {
                what: self.what.to_string(),
                op: "search_pair".to_string(),
                pattern: std::format!("{}\u{1}{}", self.a.src, self.b.src),
                casei: self.casei_a,
                limit: None,
                arg: 0,
                observed: std::format!("{}|{}", ra.canon(), rb.canon()),
                expected: "identical results".to_string(),
            });
        }
        o
    }
}

/// C14, second half: the delegate size limits apply to every delegated piece, the order of
/// the builder calls does not matter, and generous limits change nothing.
fn builder_options(cfg: &RunCfg, item: &Item, rep: &mut PatReport) -> bool {
    use crate::RegexBuilder;
    let p = &item.pattern;
    let b = match symx_api::build(p, false, None) {
        Ok(b) => b,
        Err(e) => {
            rep.status = std::format!("rejected:{}", e);
            return false;
        }
    };
    let prop = cfg.prop.clone();
    let mk = |what: String, limit: usize, arg: usize, observed: &str, expected: &str| crate::props::Cand {
        prop: prop.clone(),
        what,
        op: "build_opts".to_string(),
        pattern: p.clone(),
        casei: false,
        limit: Some(limit),
        text: Vec::new(),
        pos: 0,
        arg,
        observed: observed.to_string(),
        expected: expected.to_string(),
    };
    let okstr = |b: bool| if b { "OK" } else { "ERR" };
    for limit in [10usize, 300, 20_000].iter() {
        // what regex-automata itself says about every piece this pattern hands to it
        let pieces_ok = b.delegate_log.iter().all(|(d, sc)| {
            regex_automata::meta::Builder::new()
                .configure(regex_automata::meta::Config::new().nfa_size_limit(Some(*limit)))
                .syntax(sc.clone())
                .build(d)
                .is_ok()
        });
        let dfa = 1usize << 22;
        let r0 = RegexBuilder::new(p).delegate_size_limit(*limit).build().is_ok();
        let r1 = RegexBuilder::new(p).delegate_size_limit(*limit).delegate_dfa_size_limit(dfa).build().is_ok();
        let r2 = RegexBuilder::new(p).delegate_dfa_size_limit(dfa).delegate_size_limit(*limit).build().is_ok();
        rep.bump(if pieces_ok { "size_limit_builds_accepted" } else { "size_limit_builds_rejected" }, 1);
        for (arg, r) in [(0usize, r0), (1, r1), (2, r2)].iter() {
            if *r != pieces_ok {
                let c = mk(
                    std::format!(
                        "delegate_size_limit({}){}: the build is {} although {} of its delegated pieces fits the limit",
                        limit,
                        match arg { 0 => "", 1 => " then delegate_dfa_size_limit", _ => " after delegate_dfa_size_limit" },
                        if *r { "accepted" } else { "rejected" },
                        if pieces_ok { "every one" } else { "not every one" }
                    ),
                    *limit,
                    *arg,
                    okstr(*r),
                    okstr(pieces_ok),
                );
                rep.candidates.push(c);
                return true;
            }
        }
    }
    true
}

pub fn process_pair(cfg: &RunCfg, item: &Item, rep: &mut PatReport) {
    if item.gen == "builder-options" {
        if !builder_options(cfg, item, rep) || !rep.candidates.is_empty() {
            return;
        }
        // generous limits change nothing: twin programs on the symbolic text
        let a = match symx_api::build(&item.pattern, false, None) {
            Ok(a) => a,
            Err(_) => return,
        };
        let b = match symx_api::build_sized(&item.pattern, false, Some(999_999), Some((1 << 28, 1 << 28))) {
            Ok(b) => b,
            Err(e) => {
                rep.candidates.push(crate::props::Cand {
                    prop: cfg.prop.clone(),
                    what: std::format!("generous limits make the build fail: {}", e),
                    op: "build_opts".to_string(),
                    pattern: item.pattern.clone(),
                    casei: false,
                    limit: Some(1 << 28),
                    text: Vec::new(),
                    pos: 0,
                    arg: 1,
                    observed: "ERR".to_string(),
                    expected: "OK".to_string(),
                });
                return;
            }
        };
        rep.insn_kinds = a.insn_kinds | b.insn_kinds;
        rep.fancy = a.fancy;
        let classes = union_classes(&a.classes, &b.classes);
        let body = PairBody { a: &a, b: &b, casei_a: false, what: "generous backtrack / size limits change the result" };
        drive(&cfg.prop, &body, &classes, cfg.n, cfg, rep);
        return;
    }
    let variant = match &item.variant {
        Some(v) => v.clone(),
        None => {
            rep.status = "error:pair item without variant".to_string();
            return;
        }
    };
    let casei_a = cfg.prop == "C14";
    if let Some(e) = &item.expected {
        // both spellings were printed from a generated tree: the parser must rebuild it
        for p in [&item.pattern, &variant] {
            if let Ok(t) = parse_raw(p) {
                if t.expr != **e {
                    rep.candidates.push(crate::props::Cand {
                        prop: cfg.prop.clone(),
                        what: "the parser builds a different expression tree than the one the pattern was printed from".to_string(),
                        op: "parse_debug".to_string(),
                        pattern: p.clone(),
                        casei: false,
                        limit: None,
                        text: Vec::new(),
                        pos: 0,
                        arg: 0,
                        observed: std::format!("{:?}", t.expr),
                        expected: std::format!("{:?}", e),
                    });
                    return;
                }
            }
        }
    }
    if item.note.starts_with("tree-differs") {
        // C19: the two spellings must parse to the same tree -- decided concretely
        rep.candidates.push(crate::props::Cand {
            prop: cfg.prop.clone(),
            what: "the two spellings parse to different expression trees".to_string(),
            op: "tree_pair".to_string(),
            pattern: std::format!("{}\u{1}{}", item.pattern, variant),
            casei: false,
            limit: None,
            text: Vec::new(),
            pos: 0,
            arg: 0,
            observed: "NE".to_string(),
            expected: "EQ".to_string(),
        });
        return;
    }
    // the properties' pattern space leaves out unbounded repeats over a body that can
    // match empty (F1), where the automata engine and the VM are known to differ
    if let Ok(t) = parse_raw(&item.pattern) {
        let rp = refsem::build(&t.expr);
        if rp.has_f1 {
            rep.status = "skipped:F1 class (unbounded repeat over a body that can match empty)".to_string();
            return;
        }
    }
    let a = match build_or_status(&item.pattern, casei_a, rep) {
        Some(b) => b,
        None => return,
    };
    let b = match symx_api::build(&variant, false, None) {
        Ok(b) => b,
        Err(e) => {
            if e.starts_with("SYMX") {
                rep.status = std::format!("error:{}", e);
            } else if cfg.prop == "C03" {
                // "whenever the modified pattern still compiles"
                rep.status = std::format!("skipped:variant does not compile: {}", e.chars().take(40).collect::<String>());
            } else {
                // C14 / C19: one spelling compiles and the other does not
                rep.candidates.push(crate::props::Cand {
                    prop: cfg.prop.clone(),
                    what: std::format!("one spelling compiles, the other is rejected: {}", e),
                    op: "build_pair".to_string(),
                    pattern: std::format!("{}\u{1}{}", item.pattern, variant),
                    casei: casei_a,
                    limit: None,
                    text: Vec::new(),
                    pos: 0,
                    arg: 0,
                    observed: "OK|ERR".to_string(),
                    expected: "both compile".to_string(),
                });
            }
            return;
        }
    };
    rep.insn_kinds = a.insn_kinds | b.insn_kinds;
    rep.fancy = a.fancy || b.fancy;
    if a.fancy != b.fancy {
        rep.bump("pairs_split_differently(wrap_vs_vm)", 1);
    }
    if a.n_groups != b.n_groups {
        rep.status = "skipped:variants have different group counts".to_string();
        return;
    }
    let classes = union_classes(&a.classes, &b.classes);
    let what = match cfg.prop.as_str() {
        "C03" => "inserting (?=) changed the result",
        "C14" => "case_insensitive(true) on P differs from (?i)P",
        _ => "equivalent spellings give different results",
    };
    let body = PairBody { a: &a, b: &b, casei_a, what };
    drive(&cfg.prop, &body, &classes, cfg.n, cfg, rep);
}

// ---------------------------------------------------------------------------
// C07: backtrack limits and termination

pub struct LimitBody<'a> {
    pub b: &'a Built,
    pub rp: &'a RProg,
    pub step_factor: u64,
}

const LIMITS: [usize; 8] = [0, 1, 2, 3, 5, 10, 100, 1_000_000];

impl<'a> Body for LimitBody<'a> {
    fn run<T: Text + ?Sized>(&self, t: &T, pos: usize) -> Obs {
        let mut o = Obs::default();
        let unl = symx_api::opts_with_limit(self.b, usize::MAX);
        let r0 = symx_api::search_with(self.b, t, pos, 0, &unl);
        let st = symx_api::last_run_stats();
        // backtracks the run needs = alternatives it resumed (counted independently of the
        // VM's own counter, which the limit is compared with)
        let bt = st.resumes as usize;
        o.items.push(std::format!("{} backtracks={}", r0.canon(), bt));
        o.matched = matches!(r0, VmRes::Match(_));
        o.counters.push(("vm_steps".to_string(), st.steps));
        o.counters.push(("vm_backtracks".to_string(), st.backtracks));
        let mk = |what: String, limit: Option<usize>, observed: String, expected: String| Fail {
            what,
            op: "search".to_string(),
            pattern: self.b.src.clone(),
            casei: false,
            limit,
            arg: 0,
            observed,
            expected,
        };
        // termination bound: between two backtracks (pc, ix, counters) cannot repeat
        let bound = (bt as u64 + 1) * (self.b.prog_len as u64 + 1) * (t.len() as u64 + 2) * self.step_factor;
        if st.steps > bound {
            o.fail = Some(mk(
                std::format!("{} VM steps for {} backtracks exceeds the bound {}", st.steps, bt, bound),
                Some(usize::MAX),
                r0.canon(),
                std::format!("<= {} steps", bound),
            ));
            return o;
        }
        let mut limits: Vec<usize> = LIMITS.to_vec();
        if bt >= 1 {
            limits.push(bt - 1);
        }
        limits.push(bt);
        let ble = VmRes::Err("BacktrackLimitExceeded".to_string());
        for l in limits {
            let ol = symx_api::opts_with_limit(self.b, l);
            let rl = symx_api::search_with(self.b, t, pos, 0, &ol);
            o.items.push(std::format!("L{}={}", l, rl.canon()));
            if o.fail.is_some() {
                continue;
            }
            if l >= bt {
                if rl != r0 {
                    o.fail = Some(mk(
                        std::format!("limit {} >= {} backtracks needed, but the answer differs from the unlimited run", l, bt),
                        Some(l),
                        rl.canon(),
                        r0.canon(),
                    ));
                }
            } else if rl != ble {
                // fewer backtracks allowed than needed: must be the limit error
                if rl == r0 {
                    o.fail = Some(mk(
                        std::format!("limit {} < {} backtracks needed, but no BacktrackLimitExceeded", l, bt),
                        Some(l),
                        rl.canon(),
                        ble.canon(),
                    ));
                } else {
                    o.fail = Some(mk(
                        std::format!("limit {}: answer is neither BacktrackLimitExceeded nor the unlimited answer", l),
                        Some(l),
                        rl.canon(),
                        std::format!("{} or {}", ble.canon(), r0.canon()),
                    ));
                }
            }
        }
        // default limits: a tiny search must not report a limit error
        let rd = symx_api::search(self.b, t, pos, 0);
        o.items.push(std::format!("default={}", rd.canon()));
        if o.fail.is_none() {
            if let VmRes::Err(e) = &rd {
                let rf = refsem::search(self.rp, t, pos, false, 10_000);
                if rf.outcome != Outcome::Aborted && rf.outcome != Outcome::LookBehindNotFixed {
                    o.fail = Some(mk(
                        std::format!("{} with default limits although the reference needs only {} steps", e, rf.steps),
                        None,
                        rd.canon(),
                        ref_canon(&rf.outcome),
                    ));
                }
            }
        }
        o
    }
}

pub fn process_limits(cfg: &RunCfg, item: &Item, rep: &mut PatReport) {
    let tree = match parse_raw(&item.pattern) {
        Ok(t) => t,
        Err(e) => {
            rep.status = std::format!("rejected:{}", e);
            return;
        }
    };
    let b = match build_or_status(&item.pattern, false, rep) {
        Some(b) => b,
        None => return,
    };
    if !b.fancy {
        rep.status = "skipped:not compiled to the VM".to_string();
        return;
    }
    rep.insn_kinds = b.insn_kinds;
    rep.fancy = true;
    let rp = refsem::build(&tree.expr);
    if let Some(u) = &rp.unsupported {
        rep.status = std::format!("skipped:{}", u);
        return;
    }
    // product over counted repeats of (bound + 2), capped
    let mut f: u64 = 1;
    if let crate::RegexImpl::Fancy { prog, .. } = &b.regex.inner {
        for insn in &prog.body {
            match insn {
                crate::vm::Insn::RepeatGr { hi, .. } | crate::vm::Insn::RepeatNg { hi, .. } => {
                    let h = if *hi == usize::MAX { (cfg.n + 2) as u64 } else { (*hi as u64).min(1000) + 2 };
                    f = f.saturating_mul(h).min(1_000_000);
                }
                crate::vm::Insn::RepeatEpsilonGr { .. } | crate::vm::Insn::RepeatEpsilonNg { .. } => {
                    f = f.saturating_mul((cfg.n + 3) as u64).min(1_000_000);
                }
                _ => {}
            }
        }
    }
    // 1M stack pushes end in StackOverflow after about 3M steps; a search over <= 5 bytes that
    // needs more than 4M steps is reported as non-terminating
    symx_api::set_step_cap(4_000_000);
    let classes = union_classes(&b.classes, &rp.classes);
    let body = LimitBody { b: &b, rp: &rp, step_factor: f };
    drive(&cfg.prop, &body, &classes, cfg.n, cfg, rep);
}

// ---------------------------------------------------------------------------
// C20: backtracking state discipline (shadow whole-state-copy model)

pub struct StateBody<'a> {
    pub b: &'a Built,
}

impl<'a> Body for StateBody<'a> {
    fn run<T: Text + ?Sized>(&self, t: &T, pos: usize) -> Obs {
        let mut o = Obs::default();
        symx_api::shadow_reset(true);
        let r = symx_api::search(self.b, t, pos, 0);
        let (viol, hist, hops, ops, pushes, pops, cuts, saves, depth, nsaves) = symx_api::SHADOW.with(|s| {
            let s = s.borrow();
            (
                s.violations.clone(),
                s.history.clone(),
                s.history_ops,
                s.ops,
                s.pushes,
                s.pops,
                s.cuts,
                s.saves,
                s.max_depth,
                s.n_saves_pub(),
            )
        });
        symx_api::shadow_reset(false);
        o.items.push(std::format!("{} ops={}", r.canon(), ops));
        o.matched = matches!(r, VmRes::Match(_));
        o.counters.push(("state_ops".to_string(), ops));
        o.counters.push(("create_alternative".to_string(), pushes));
        o.counters.push(("abandon_alternative".to_string(), pops));
        o.counters.push(("commit_atomic".to_string(), cuts));
        o.counters.push(("slot_writes".to_string(), saves));
        o.counters.push(("max_alternatives".to_string(), depth as u64));
        if !viol.is_empty() {
            // the operation history (replayed through the State wrapper of the hook build) and
            // the pattern itself (replayed as a real search under a snapshot observer)
            let too_long = hops > symx_api::HISTORY_CAP;
            o.fail = Some(Fail {
                what: viol[0].clone(),
                op: if too_long { "state_observed".to_string() } else { "state_history".to_string() },
                pattern: std::format!("{}\u{1}{}\u{1}{}", nsaves, if too_long { "" } else { &hist[..] }, self.b.src),
                casei: false,
                limit: None,
                arg: 0,
                observed: "MISMATCH".to_string(),
                expected: "state equals the whole-state-copy model after every operation".to_string(),
            });
        }
        o
    }
}

pub fn process_state(cfg: &RunCfg, item: &Item, rep: &mut PatReport) {
    let b = match build_or_status(&item.pattern, false, rep) {
        Some(b) => b,
        None => return,
    };
    if !b.fancy {
        rep.status = "skipped:not compiled to the VM".to_string();
        return;
    }
    rep.insn_kinds = b.insn_kinds;
    rep.fancy = true;
    symx_api::set_step_cap(30_000_000);
    let body = StateBody { b: &b };
    drive(&cfg.prop, &body, &b.classes, cfg.n, cfg, rep);
}

// ---------------------------------------------------------------------------
// C13(a): soundness of min_size / const_size for every sub-expression

fn count_chars<T: Text + ?Sized>(t: &T, from: usize, to: usize) -> usize {
    let mut n = 0;
    let mut i = from;
    while i < to {
        i += hirmodel::char_width(t, i);
        n += 1;
    }
    n
}

struct Fact<'a> {
    r: &'a R,
    min_size: usize,
    const_size: bool,
    sub: Option<String>,
    path: String,
}

fn collect_facts<'a>(r: &'a R, info: &Info<'_>, path: String, out: &mut Vec<Fact<'a>>) {
    let sub = {
        let st = Style::default();
        // a sub-expression can be replayed natively on its own only if it is closed
        // (no reference to a group outside it)
        if closed(info.expr, info.start_group, info.end_group) {
            unparse::unparse(&renumber(info.expr, info.start_group), &st)
        } else {
            None
        }
    };
    out.push(Fact { r, min_size: info.min_size, const_size: info.const_size, sub, path: path.clone() });
    let kids: Vec<&'a R> = match r {
        R::Concat(v) | R::Alt(v) => v.iter().collect(),
        R::Group(_, c) | R::Atomic(c) | R::Look(c, _) => vec![&**c],
        R::Repeat { child, .. } => vec![&**child],
        R::Cond { c, t, f } => vec![&**c, &**t, &**f],
        _ => Vec::new(),
    };
    if kids.len() == info.children.len() {
        for (i, (k, ci)) in kids.iter().zip(info.children.iter()).enumerate() {
            collect_facts(k, ci, std::format!("{}.{}", path, i), out);
        }
    }
}

fn closed(e: &Expr, start_group: usize, end_group: usize) -> bool {
    match e {
        Expr::Backref(g) | Expr::BackrefExistsCondition(g) => *g >= start_group && *g < end_group,
        Expr::Concat(v) | Expr::Alt(v) => v.iter().all(|c| closed(c, start_group, end_group)),
        Expr::Group(c) | Expr::LookAround(c, _) | Expr::AtomicGroup(c) => closed(c, start_group, end_group),
        Expr::Repeat { child, .. } => closed(child, start_group, end_group),
        Expr::Conditional { condition, true_branch, false_branch } => {
            closed(condition, start_group, end_group) && closed(true_branch, start_group, end_group) && closed(false_branch, start_group, end_group)
        }
        _ => true,
    }
}

/// renumber group references so that the first group inside the sub-expression is 1
fn renumber(e: &Expr, start_group: usize) -> Expr {
    let shift = start_group.saturating_sub(1);
    match e {
        Expr::Backref(g) => Expr::Backref(g - shift),
        Expr::BackrefExistsCondition(g) => Expr::BackrefExistsCondition(g - shift),
        Expr::Concat(v) => Expr::Concat(v.iter().map(|c| renumber(c, start_group)).collect()),
        Expr::Alt(v) => Expr::Alt(v.iter().map(|c| renumber(c, start_group)).collect()),
        Expr::Group(c) => Expr::Group(Box::new(renumber(c, start_group))),
        Expr::LookAround(c, la) => Expr::LookAround(Box::new(renumber(c, start_group)), *la),
        Expr::AtomicGroup(c) => Expr::AtomicGroup(Box::new(renumber(c, start_group))),
        Expr::Repeat { child, lo, hi, greedy } => Expr::Repeat { child: Box::new(renumber(child, start_group)), lo: *lo, hi: *hi, greedy: *greedy },
        Expr::Conditional { condition, true_branch, false_branch } => Expr::Conditional {
            condition: Box::new(renumber(condition, start_group)),
            true_branch: Box::new(renumber(true_branch, start_group)),
            false_branch: Box::new(renumber(false_branch, start_group)),
        },
        other => unparse::clone_expr(other),
    }
}

pub struct FactsBody<'a> {
    facts: &'a [Fact<'a>],
    ngroups: usize,
    pattern: &'a str,
}

impl<'a> Body for FactsBody<'a> {
    fn run<T: Text + ?Sized>(&self, t: &T, pos: usize) -> Obs {
        let mut o = Obs::default();
        for f in self.facts {
            let mut ends: BTreeSet<usize> = BTreeSet::new();
            let complete = refsem::all_ends(f.r, self.ngroups, t, pos, REF_STEP_CAP, &mut |j| {
                ends.insert(j);
            });
            if !complete {
                o.not_covered = Some("reference step cap".to_string());
                continue;
            }
            if !ends.is_empty() {
                o.matched = true;
            }
            o.items.push(std::format!("{}:{:?}", f.path, ends));
            if o.fail.is_some() {
                continue;
            }
            for &e in &ends {
                if e < pos {
                    continue; // a \K / look-behind artefact cannot occur: ends are >= start
                }
                let l = count_chars(t, pos, e);
                let bad = if l < f.min_size {
                    Some(std::format!("sub-expression {} matches {} characters but its computed minimum is {}", f.path, l, f.min_size))
                } else if f.const_size && l != f.min_size {
                    Some(std::format!("sub-expression {} is judged constant-size {} but matches {} characters", f.path, f.min_size, l))
                } else {
                    None
                };
                if let Some(what) = bad {
                    // native replay: the sub-expression alone, forced to match exactly [pos, e)
                    let (pat, expected) = match &f.sub {
                        Some(s) => {
                            let before = count_chars(t, 0, pos);
                            let after = count_chars(t, e, t.len());
                            (
                                std::format!("(?s:(?<=\\A.{{{}}}))(?:{})(?s:(?=.{{{}}}\\z))", before, s, after),
                                std::format!("computed facts min_size={} const_size={}", f.min_size, f.const_size),
                            )
                        }
                        None => (self.pattern.to_string(), "facts of a sub-expression that is not closed".to_string()),
                    };
                    o.fail = Some(Fail {
                        what,
                        op: if f.sub.is_some() { "find".to_string() } else { "none".to_string() },
                        pattern: pat,
                        casei: false,
                        limit: None,
                        arg: 0,
                        observed: std::format!("M[{},{}]", pos, e),
                        expected,
                    });
                    break;
                }
            }
        }
        o
    }
}

thread_local! {
    static LB_LENGTHS: RefCell<Vec<BTreeSet<usize>>> = RefCell::new(Vec::new());
}

/// C13(b): the set of lengths (in characters) each look-behind alternative can match.
pub struct LbLenBody<'a> {
    alts: &'a [(&'a R, String)],
    ngroups: usize,
}

impl<'a> Body for LbLenBody<'a> {
    fn run<T: Text + ?Sized>(&self, t: &T, pos: usize) -> Obs {
        let mut o = Obs::default();
        for (k, (r, _)) in self.alts.iter().enumerate() {
            let mut lens: BTreeSet<usize> = BTreeSet::new();
            let complete = refsem::all_ends(r, self.ngroups, t, pos, REF_STEP_CAP, &mut |j| {
                if j >= pos {
                    lens.insert(count_chars(t, pos, j));
                }
            });
            if !complete {
                o.not_covered = Some("reference step cap".to_string());
            }
            if !lens.is_empty() {
                o.matched = true;
            }
            o.items.push(std::format!("alt{}:{:?}", k, lens));
            if T::SYMBOLIC {
                LB_LENGTHS.with(|l| {
                    let mut l = l.borrow_mut();
                    while l.len() <= k {
                        l.push(BTreeSet::new());
                    }
                    for x in &lens {
                        l[k].insert(*x);
                    }
                });
            }
        }
        o
    }
}

fn lookbehind_alts<'a>(r: &'a R, path: String, out: &mut Vec<(&'a R, String)>) {
    match r {
        R::Look(c, la) => {
            if matches!(la, crate::LookAround::LookBehind | crate::LookAround::LookBehindNeg) {
                match &**c {
                    R::Alt(v) => {
                        for (i, a) in v.iter().enumerate() {
                            out.push((a, std::format!("{}/alt{}", path, i)));
                        }
                    }
                    other => out.push((other, path.clone())),
                }
            }
            lookbehind_alts(c, std::format!("{}.0", path), out);
        }
        R::Concat(v) | R::Alt(v) => {
            for (i, c) in v.iter().enumerate() {
                lookbehind_alts(c, std::format!("{}.{}", path, i), out);
            }
        }
        R::Group(_, c) | R::Atomic(c) => lookbehind_alts(c, std::format!("{}.0", path), out),
        R::Repeat { child, .. } => lookbehind_alts(child, std::format!("{}.0", path), out),
        R::Cond { c, t, f } => {
            lookbehind_alts(c, std::format!("{}.0", path), out);
            lookbehind_alts(t, std::format!("{}.1", path), out);
            lookbehind_alts(f, std::format!("{}.2", path), out);
        }
        _ => {}
    }
}

pub fn process_c13(cfg: &RunCfg, item: &Item, rep: &mut PatReport) {
    let tree = match parse_raw(&item.pattern) {
        Ok(t) => t,
        Err(e) => {
            rep.status = std::format!("rejected:{}", e);
            return;
        }
    };
    let rp = refsem::build(&tree.expr);
    if let Some(u) = &rp.unsupported {
        rep.status = std::format!("skipped:{}", u);
        return;
    }
    let built = symx_api::build(&item.pattern, false, None);
    if let Err(e) = &built {
        if e.starts_with("SYMX") {
            rep.status = std::format!("error:{}", e);
            return;
        }
    }
    // ---- (b) look-behind acceptance ---------------------------------------
    if rp.has_lookbehind {
        let mut alts: Vec<(&R, String)> = Vec::new();
        lookbehind_alts(&rp.root, "r".to_string(), &mut alts);
        LB_LENGTHS.with(|l| l.borrow_mut().clear());
        let body = LbLenBody { alts: &alts, ngroups: rp.ngroups };
        let mut sub = PatReport::default();
        sub.pattern = item.pattern.clone();
        drive(&cfg.prop, &body, &rp.classes, cfg.n, cfg, &mut sub);
        rep.explorations += sub.explorations;
        rep.paths += sub.paths;
        rep.validated += sub.validated;
        rep.closing_ok += sub.closing_ok;
        rep.divergences.extend(sub.divergences);
        rep.not_covered.extend(sub.not_covered);
        rep.samples.extend(sub.samples);
        rep.saw_match |= sub.saw_match;
        rep.saw_nomatch |= sub.saw_nomatch;
        if sub.status.starts_with("error") {
            rep.status = sub.status;
            return;
        }
        let lens: Vec<BTreeSet<usize>> = LB_LENGTHS.with(|l| l.borrow().clone());
        let variable: Vec<usize> = lens.iter().enumerate().filter(|(_, s)| s.len() >= 2).map(|(k, _)| k).collect();
        rep.bump("lookbehind_alternatives", alts.len() as u64);
        match &built {
            Ok(_) => {
                rep.bump("lookbehind_patterns_accepted", 1);
                if let Some(&k) = variable.first() {
                    rep.candidates.push(crate::props::Cand {
                        prop: cfg.prop.clone(),
                        what: std::format!(
                            "pattern compiles although look-behind alternative {} matches strings of {:?} characters",
                            alts[k].1, lens[k]
                        ),
                        op: "build".to_string(),
                        pattern: item.pattern.clone(),
                        casei: false,
                        limit: None,
                        text: Vec::new(),
                        pos: 0,
                        arg: 0,
                        observed: "OK".to_string(),
                        expected: "CompileError(LookBehindNotConst)".to_string(),
                    });
                }
            }
            Err(e) => {
                rep.bump("lookbehind_patterns_rejected", 1);
                if !variable.is_empty() && e.starts_with("CompileError") && !e.contains("LookBehindNotConst") && !e.contains("InvalidBackref") {
                    rep.candidates.push(crate::props::Cand {
                        prop: cfg.prop.clone(),
                        what: std::format!("variable-length look-behind rejected with {} instead of LookBehindNotConst", e),
                        op: "build".to_string(),
                        pattern: item.pattern.clone(),
                        casei: false,
                        limit: None,
                        text: Vec::new(),
                        pos: 0,
                        arg: 0,
                        observed: std::format!("ERR:{}", e),
                        expected: "CompileError(LookBehindNotConst)".to_string(),
                    });
                }
                if variable.is_empty() {
                    rep.bump("lookbehind_rejected_although_fixed_within_bound(conservative)", 1);
                }
            }
        }
    }
    let b = match built {
        Ok(b) => b,
        Err(e) => {
            rep.status = std::format!("rejected:{}", e);
            return;
        }
    };
    rep.insn_kinds = b.insn_kinds;
    rep.fancy = b.fancy;
    // ---- (a) size facts of every sub-expression ---------------------------
    // the analysis is the repository's (analyze.rs is copied byte-identically)
    let wrapped = crate::wrap_tree(match parse_raw(&item.pattern) {
        Ok(t) => t,
        Err(_) => return,
    });
    let info = match crate::analyze::analyze(&wrapped) {
        Ok(i) => i,
        Err(e) => {
            rep.status = std::format!("rejected:{:?}", e);
            return;
        }
    };
    let inner = &info.children[1].children[0];
    let mut facts: Vec<Fact> = Vec::new();
    collect_facts(&rp.root, inner, "e".to_string(), &mut facts);
    rep.bump("sub_expressions_checked", facts.len() as u64);
    rep.bump("sub_expressions_const_size", facts.iter().filter(|f| f.const_size).count() as u64);
    let body = FactsBody { facts: &facts, ngroups: rp.ngroups, pattern: &item.pattern };
    drive(&cfg.prop, &body, &rp.classes, cfg.n, cfg, rep);
    if !rep.candidates.is_empty() || rep.status != "checked" {
        return;
    }
    // ---- (c) semantics of accepted look-behinds: differential with the reference
    if rp.has_lookbehind && !rp.has_f1 && !rp.has_contg && !rp.has_cond {
        let classes = union_classes(&b.classes, &rp.classes);
        let body = crate::props::SearchBody { prop: "C02", b: &b, rp: &rp, compare_ref: true };
        drive(&cfg.prop, &body, &classes, cfg.n, cfg, rep);
        rep.bump("lookbehind_patterns_compared_with_reference", 1);
    }
}

// ---------------------------------------------------------------------------
// C17: escape(s) matches exactly s

pub struct EscapeBody<'a> {
    pub b: &'a Built,
    pub needle: Vec<u8>,
}

impl<'a> Body for EscapeBody<'a> {
    fn run<T: Text + ?Sized>(&self, t: &T, pos: usize) -> Obs {
        let mut o = Obs::default();
        let r = symx_api::search(self.b, t, pos, 0);
        // str::find on the symbolic text: first offset >= pos where the bytes equal the needle
        let mut expect = VmRes::NoMatch;
        let n = self.needle.len();
        let mut i = pos;
        loop {
            if i + n <= t.len() && t.as_bytes()[i..i + n] == self.needle[..] {
                expect = VmRes::Match(vec![Some((i, i + n))]);
                break;
            }
            if i >= t.len() {
                break;
            }
            i += hirmodel::char_width(t, i);
        }
        o.items.push(r.canon());
        o.items.push(std::format!("find={}", expect.canon()));
        o.matched = matches!(r, VmRes::Match(_));
        let got0 = match &r {
            VmRes::Match(g) => VmRes::Match(vec![g[0]]),
            other => other.clone(),
        };
        if got0 != expect {
            o.fail = Some(Fail {
                what: "escape(s) embedded in a pattern does not find exactly the first literal occurrence of s".to_string(),
                op: "find".to_string(),
                pattern: self.b.src.clone(),
                casei: false,
                limit: None,
                arg: 0,
                observed: got0.canon(),
                expected: expect.canon(),
            });
        }
        o
    }
}

pub fn process_escape(cfg: &RunCfg, item: &Item, rep: &mut PatReport) {
    // item.note = the raw string s; item.pattern = host with escape(s) embedded;
    // item.variant = the literal the host must find (s, or s repeated)
    let needle = item.variant.clone().unwrap_or_default();
    // borrowed iff unchanged (concrete)
    let esc = crate::escape(&item.note);
    let borrowed = matches!(esc, std::borrow::Cow::Borrowed(_));
    if borrowed != (esc.as_ref() == item.note.as_str()) {
        rep.candidates.push(crate::props::Cand {
            prop: cfg.prop.clone(),
            what: "escape borrows its input iff nothing needed escaping -- violated".to_string(),
            op: "escape".to_string(),
            pattern: item.note.clone(),
            casei: false,
            limit: None,
            text: Vec::new(),
            pos: 0,
            arg: 0,
            observed: std::format!("{}:{}", if borrowed { "B" } else { "O" }, esc),
            expected: "borrowed iff unchanged".to_string(),
        });
        return;
    }
    let b = match symx_api::build(&item.pattern, false, None) {
        Ok(b) => b,
        Err(e) => {
            if e.starts_with("SYMX") {
                rep.status = std::format!("error:{}", e);
            } else {
                // escape(s) must compile for every s
                rep.candidates.push(crate::props::Cand {
                    prop: cfg.prop.clone(),
                    what: std::format!("pattern with escape(s) embedded does not compile: {}", e),
                    op: "build".to_string(),
                    pattern: item.pattern.clone(),
                    casei: false,
                    limit: None,
                    text: Vec::new(),
                    pos: 0,
                    arg: 0,
                    observed: std::format!("ERR:{}", e),
                    expected: "OK".to_string(),
                });
            }
            return;
        }
    };
    rep.insn_kinds = b.insn_kinds;
    rep.fancy = b.fancy;
    let body = EscapeBody { b: &b, needle: needle.as_bytes().to_vec() };
    drive(&cfg.prop, &body, &b.classes, cfg.n, cfg, rep);
}

// ---------------------------------------------------------------------------
// C04: on the common syntax the answer is the regex crate's

pub struct RegexCrateBody<'a> {
    pub b: &'a Built,
    pub reference: &'a HProg,
    pub real: Option<&'a regex_automata::meta::Regex>,
}

impl<'a> Body for RegexCrateBody<'a> {
    fn run<T: Text + ?Sized>(&self, t: &T, pos: usize) -> Obs {
        let mut o = Obs::default();
        let r = symx_api::search(self.b, t, pos, 0);
        let n = self.b.n_groups;
        let expect = match hirmodel::search(self.reference, t, pos) {
            Some(c) => {
                let mut g = Vec::new();
                for i in 0..n {
                    match (c.get(2 * i).cloned().flatten(), c.get(2 * i + 1).cloned().flatten()) {
                        (Some(a), Some(z)) => g.push(Some((a, z))),
                        _ => g.push(None),
                    }
                }
                VmRes::Match(g)
            }
            None => VmRes::NoMatch,
        };
        o.items.push(r.canon());
        o.items.push(std::format!("regex={}", expect.canon()));
        // on the concrete side also ask the real regex-automata built from the raw pattern:
        // validates the model of "what the regex crate answers"
        if let (Some(s), Some(re)) = (t.as_str(), self.real) {
            let mut slots = vec![None; 2 * n.max(1)];
            let input = regex_automata::Input::new(s).span(pos..s.len());
            let real = match re.search_slots(&input, &mut slots) {
                Some(_) => {
                    let mut g = Vec::new();
                    for i in 0..n {
                        match (slots[2 * i], slots[2 * i + 1]) {
                            (Some(a), Some(z)) => g.push(Some((a.get(), z.get()))),
                            _ => g.push(None),
                        }
                    }
                    VmRes::Match(g)
                }
                None => VmRes::NoMatch,
            };
            if real != expect {
                // shows up as a divergence between the symbolic and the concrete observation
                o.items.push(std::format!("REAL-REGEX-AUTOMATA={}", real.canon()));
            }
        }
        o.matched = matches!(r, VmRes::Match(_));
        if r != expect {
            o.fail = Some(Fail {
                what: "result differs from the regex crate's on a common-syntax pattern".to_string(),
                op: "search_vs_regex".to_string(),
                pattern: self.b.src.clone(),
                casei: false,
                limit: None,
                arg: 0,
                observed: std::format!("{}|{}", r.canon(), expect.canon()),
                expected: "equal".to_string(),
            });
        }
        o
    }
}

pub fn process_c04(cfg: &RunCfg, item: &Item, rep: &mut PatReport) {
    let cfgsyn = regex_automata::util::syntax::Config::new();
    let reference = match hirmodel::parse(&item.pattern, &cfgsyn) {
        Ok(h) => h,
        Err(_) => {
            rep.status = "skipped:not in the regex crate's syntax".to_string();
            return;
        }
    };
    let b = match build_or_status(&item.pattern, false, rep) {
        Some(b) => b,
        None => {
            if rep.status.starts_with("rejected") {
                // common syntax accepted by the regex crate but rejected here
                rep.bump("accepted_by_regex_rejected_by_fancy", 1);
                if item.gen == "class-syntax" {
                    // character classes are handed to regex-syntax verbatim: a class the regex
                    // crate accepts must compile here as well
                    rep.candidates.push(crate::props::Cand {
                        prop: cfg.prop.clone(),
                        what: std::format!("a character class of the common syntax is rejected: {}", rep.status),
                        op: "build".to_string(),
                        pattern: item.pattern.clone(),
                        casei: false,
                        limit: None,
                        text: Vec::new(),
                        pos: 0,
                        arg: 0,
                        observed: "ERR".to_string(),
                        expected: "OK".to_string(),
                    });
                    rep.status = "checked".to_string();
                }
            }
            return;
        }
    };
    if let Ok(t) = parse_raw(&item.pattern) {
        rep.tags = crate::props::structural_tags(&t.expr);
        if crate::props::inline_flag_in_leaky_group(&item.pattern) {
            rep.tags.push("inline-flag-inside-capturing-or-atomic-group".to_string());
        }
        if refsem::build(&t.expr).has_f1 && item.gen != "f1-witness" {
            rep.status = "skipped:F1 class (unbounded repeat over a body that can match empty)".to_string();
            return;
        }
    }
    if b.n_groups != reference.ncaps {
        rep.status = "skipped:group count differs (syntax not common)".to_string();
        return;
    }
    rep.insn_kinds = b.insn_kinds;
    rep.fancy = b.fancy;
    let real = regex_automata::meta::Regex::new(&item.pattern).ok();
    let classes = union_classes(&b.classes, &reference.classes);
    let body = RegexCrateBody { b: &b, reference: &reference, real: real.as_ref() };
    drive(&cfg.prop, &body, &classes, cfg.n, cfg, rep);
}

// ---------------------------------------------------------------------------
// corpora

fn parse_ok(p: &str) -> Option<crate::parse::ExprTree> {
    Expr::parse_tree(p).ok()
}

fn inject_items(p: &str, gen: &str, rng: Option<&mut Rng>, out: &mut Vec<Item>) {
    let tree = match parse_ok(p) {
        Some(t) => t,
        None => return,
    };
    let st = Style::default();
    // the base is printed by the same printer, so base and variant differ by `(?=)` only
    let base = match unparse::unparse_checked(&tree.expr, &st) {
        Some(s) => s,
        None => return,
    };
    let n = unparse::count_nodes(&tree.expr);
    let mut sites: Vec<(usize, bool)> = Vec::new();
    match rng {
        None => {
            for s in 0..n {
                sites.push((s, false));
                sites.push((s, true));
            }
            for (s, after) in sites {
                let mut c = 0;
                let inj = unparse::inject(&tree.expr, s, after, &mut c);
                if let Some(v) = unparse::unparse(&inj, &st) {
                    if v != base && Expr::parse_tree(&v).map(|t| t.expr == inj).unwrap_or(false) {
                        let mut it = Item::new(&base, gen);
                        it.variant = Some(v);
                        it.note = std::format!("site {} {}", s, if after { "after" } else { "before" });
                        out.push(it);
                    }
                }
            }
        }
        Some(rng) => {
            // random multi-site
            let k = 1 + rng.below(3);
            let mut e = unparse::clone_expr(&tree.expr);
            for _ in 0..k {
                let nn = unparse::count_nodes(&e);
                let s = rng.below(nn);
                let after = rng.chance(1, 2);
                let mut c = 0;
                e = unparse::inject(&e, s, after, &mut c);
            }
            if let Some(v) = unparse::unparse(&e, &st) {
                if v != base {
                    let mut it = Item::new(&base, gen);
                    it.variant = Some(v);
                    it.note = std::format!("{} random sites", k);
                    out.push(it);
                }
            }
        }
    }
}

pub const STYLES: [&str; 13] = ["possessive", "named", "backref-k", "backref-rel", "caret-dollar", "hex", "freespace", "comments", "inline-flags",
    "freespace-comment", "freespace-comments2", "freespace-all", "freespace-all-comments2"];

fn style_named(name: &str) -> Style {
    let mut s = Style::default();
    match name {
        "possessive" => s.possessive_sugar = true,
        "named" => s.named = true,
        "backref-k" => s.backref = 1,
        "backref-rel" => s.backref = 2,
        "caret-dollar" => s.caret_dollar = true,
        "hex" => s.hex = true,
        "freespace" => s.freespace = true,
        "freespace-comment" => {
            s.freespace = true;
            s.fs_kind = 1;
        }
        "freespace-comments2" => {
            s.freespace = true;
            s.fs_kind = 2;
        }
        "freespace-all" => {
            s.freespace = true;
            s.fs_everywhere = true;
        }
        "freespace-all-comments2" => {
            s.freespace = true;
            s.fs_kind = 2;
            s.fs_everywhere = true;
        }
        "comments" => s.comments = true,
        "inline-flags" => s.inline_flags = true,
        _ => {}
    }
    s
}

fn respell_items(p: &str, gen: &str, only: Option<&str>, out: &mut Vec<Item>) {
    let tree = match parse_ok(p) {
        Some(t) => t,
        None => return,
    };
    let base = match unparse::unparse_checked(&tree.expr, &Style::default()) {
        Some(s) => s,
        None => return,
    };
    for name in STYLES.iter() {
        if let Some(o) = only {
            if o != *name {
                continue;
            }
        }
        let st = style_named(name);
        let v = match unparse::unparse(&tree.expr, &st) {
            Some(v) => v,
            None => continue,
        };
        if v == base {
            continue;
        }
        let mut it = Item::new(&base, gen);
        it.variant = Some(v.clone());
        it.note = name.to_string();
        // "parse to the same expression tree where the tree is defined to be the same"
        match Expr::parse_tree(&v) {
            Ok(t2) => {
                if t2.expr != tree.expr {
                    it.note = std::format!("tree-differs:{}", name);
                }
            }
            Err(_) => {
                // the respelling is rejected by the parser although the default spelling of
                // the same tree is accepted: reported by process_pair (build_pair)
                it.note = std::format!("variant-rejected:{}", name);
            }
        }
        out.push(it);
    }
}

const ATOMS_SMALL: [&str; 4] = ["a", "b", ".", "[ab]"];
const ATOMS_CASE: [&str; 6] = ["a", "A", "b", "[ab]", "(?-i:a)", "."];
const OPS_QUICK: [&str; 11] = ["cap", "?", "*", "+", "*?", "{2}", "{1,2}", "atomic", "(?=", "(?!", "(?<="];
const OPS_COMMON: [&str; 15] = ["cap", "?", "*", "+", "??", "*?", "+?", "{2}", "{1,2}", "{1}", "{1}?", "{0,1}?", "{1,}?", "{0,2}", "{2,}?"];
const ATOMS_COMMON: [&str; 10] = ["a", "b", ".", "[ab]", "\\w", "\\b", "\\B", "^", "$", "\\d"];

pub fn escape_strings(max_chars: usize) -> Vec<String> {
    // alphabet: the 15 meta characters + letter, digit, space, '-', 2/3/4-byte characters
    let alpha: Vec<&str> = vec![
        "\\", ".", "+", "*", "?", "(", ")", "|", "[", "]", "{", "}", "^", "$", "#", "a", "1", " ", "-", "é", "€", "😀",
    ];
    let mut out: Vec<String> = Vec::new();
    let mut cur: Vec<String> = vec![String::new()];
    for _ in 0..max_chars {
        let mut next = Vec::new();
        for s in &cur {
            for a in &alpha {
                let mut x = s.clone();
                x.push_str(a);
                next.push(x);
            }
        }
        out.extend(next.iter().cloned());
        cur = next;
    }
    out
}

pub const ESCAPE_HOSTS: [(&str, usize); 7] = [("H", 1), ("(?:H)", 1), ("(?>H)", 1), ("(?=H)H", 1), ("(H)\\1", 2), ("(?!b)H", 1), ("H(?<=H)", 1)];

pub fn work_list(cfg: &RunCfg) -> Option<WorkList> {
    let thorough = cfg.tier == "thorough";
    let mut fixed: Vec<Item> = Vec::new();
    match cfg.prop.as_str() {
        "C03" => {
            for w in corpus::WITNESSES.iter() {
                inject_items(w, "witness", None, &mut fixed);
            }
            for w in ["(?i)\u{1c5}", "(?i)\u{1c5}a", "(?i:\u{1c8})b", "(?i)a\u{17f}", "(?i)[\u{1c5}]b"].iter() {
                inject_items(w, "plain", None, &mut fixed);
            }
            for w in ["ab|c", "a(b|c)d", "(a|ab)(c|bcd)", "a*b", "(a+)(b+)", "[ab]+c?", "a{2}b", "(?:a|b)*c", "^a$", "a.b"].iter() {
                inject_items(w, "plain", None, &mut fixed);
            }
            // (every site of every pattern: the thorough tier deepens the text bound and
            // takes more of the matrix, not the size-4 exhaustive list -- 130 000 pairs)
            let ex = corpus::exhaustive(&ATOMS_SMALL, &OPS_QUICK, 3);
            for p in ex {
                inject_items(&p, "exhaustive", None, &mut fixed);
            }
            for (k, w) in corpus::alt_order(false).iter().enumerate() {
                if thorough || k % 5 == 0 {
                    inject_items(w, "alt-order", None, &mut fixed);
                }
            }
            for (k, w) in corpus::capture_restore(false).iter().enumerate() {
                if thorough || k % 2 == 0 {
                    inject_items(w, "capture-restore", None, &mut fixed);
                }
            }
            for w in ["(?:(a)|(b))(c)", "(a)?(b)", "(a)(b)?(c)", "(a)?(b)?(c)", "((a)|b)(c)", "(?:(a)|(b)|(c))", "(a)?(?:(b)|(c))", "(a|(b))(c)?(a)"].iter() {
                inject_items(w, "delegate-groups", None, &mut fixed);
            }
            for (k, w) in corpus::compile_matrix(thorough).iter().enumerate() {
                // every injection site of every matrix pattern is a lot: quick takes a tenth
                if (thorough && k % 5 == 0) || k % 10 == 0 {
                    inject_items(w, "compile-matrix", None, &mut fixed);
                }
            }
            // every site of every pattern is already a large product: N+1 only for the witnesses
            for it in fixed.iter_mut() {
                if it.gen != "witness" {
                    it.n_extra = 0;
                }
            }
            Some(WorkList { fixed, random_enabled: true, feats: corpus::FEATS_C01, max_depth: if thorough { 4 } else { 3 } })
        }
        "C19" => {
            for w in corpus::WITNESSES.iter() {
                respell_items(w, "witness", None, &mut fixed);
            }
            for w in ["(a)((b)\\3)", "((a)\\2)", "(a)(b\\1)", "(a)(b)((c)\\2\\4)", "(?:(a)(b\\1))+"].iter() {
                respell_items(w, "witness", None, &mut fixed);
            }
            for w in ["(?i:é)b", "(?i)éa", "(?i:aé)", "(?i:\\x{212a})a", "(?i:(é)\\1)", "(?i:[é]b)", "é(?i:É)"].iter() {
                respell_items(w, "witness", None, &mut fixed);
            }
            for w in ["a*+b", "(?>a*)b", "(a)(b)\\2\\1", "\\Aab\\z", "^ab$", "a b#c", "(?i:a)b", "(?i:ab)c", "é+", "(a)\\1+", "(?<=a)b", "a++", "(a|b)?+c"].iter() {
                respell_items(w, "plain", None, &mut fixed);
            }
            // documented-equivalent spellings given as explicit pairs (shorthand escapes inside
            // and outside classes, escapes for one character, reference spellings); their trees
            // may differ (class text), their behaviour may not
            let pairs: [(&str, &str); 30] = [
                ("[x\\H]", "[x[^0-9A-Fa-f]]"), ("[^\\H]", "[0-9A-Fa-f]"), ("[x\\h]", "[x0-9A-Fa-f]"), ("\\h", "[0-9A-Fa-f]"), ("\\H", "[^0-9A-Fa-f]"), ("[^\\h]", "[^0-9A-Fa-f]"),
                ("[\\x41-\\x43]", "[A-C]"), ("[a\\x2Dc]", "[a\\-c]"), ("\\x2E", "\\."), ("\\x2A", "\\*"), ("\\x7C", "\\|"), ("[\\x5D]", "[\\]]"), ("[\\x5E]", "[\\^]"),
                ("\\e", "\\x1B"), ("\\a", "\\x07"), ("\\f", "\\x0C"), ("\\v", "\\x0B"), ("\\t", "\\x09"), ("\\n", "\\x0A"), ("\\r", "\\x0D"),
                ("\\u00e9", "\u{e9}"), ("\\U000000e9", "\u{e9}"), ("\\x{e9}", "\u{e9}"), ("[\\d]", "\\d"), ("[^\\D]", "\\d"), ("[\\w]", "\\w"),
                ("(?<n>a)\\k<n>", "(a)\\1"), ("(?P<n>a)(?P=n)", "(a)\\1"), ("(a)\\k<1>", "(a)\\1"), ("(a)\\k<-1>", "(a)\\1"),
            ];
            for (a, b) in pairs.iter() {
                for host in ["X", "X(?=)", "aX+b", "(?<=X)b"].iter() {
                    let (pa, pb) = (host.replace("X", a), host.replace("X", b));
                    if Expr::parse_tree(&pa).is_err() && Expr::parse_tree(&pb).is_err() {
                        continue;
                    }
                    let mut it = Item::new(&pa, "explicit-pair");
                    it.variant = Some(pb);
                    it.note = "explicit-pair".to_string();
                    fixed.push(it);
                }
            }
            let ex = corpus::exhaustive(&ATOMS_SMALL, &OPS_QUICK, 3);
            for p in ex {
                respell_items(&p, "exhaustive", None, &mut fixed);
            }
            Some(WorkList { fixed, random_enabled: true, feats: corpus::FEATS_C01 | corpus::F_CASE, max_depth: if thorough { 4 } else { 3 } })
        }
        "C14" => {
            let mut ws: Vec<String> = vec!["a|b|c", "a|B|c|D", "(a)\\1|b(?=c)|c", "a|b|(?-i:c)|d", "(?:a|b|c)d|e|f", "[é]", "[^é]b", "(a)\\1", "a", "[ab]", "(?-i:a)b", "a(?-i:b)", "(?=a)A", "(?>a)B", "(a|B)\\1", "\\bA", "(?<=a)B", "a(?-i:a)\\b", "(?i:a)b"]
                .iter()
                .map(|s| s.to_string())
                .collect();
            // patterns that denote cased characters without spelling a letter (ranges with
            // punctuation end points that span letters, titlecase and special-folding letters),
            // and patterns whose only letters are in escapes or flags (seed S7-C14)
            for w in ["[@-_]+", "[@-_](?=!)", "(?<![@-_])!", "([@-_])\\1", "[^@-_]", "[ -~]\\b", "[^ -@]+(?=)", "\u{1c5}", "\u{1c5}(?=)", "[\u{1c4}-\u{1c6}]", "\u{17f}", "\u{212a}(?!1)",
                      "\\x41", "\\x{61}(?=)", "\\p{Lu}", "\\p{Ll}(?=)", "\\w\\b", "(?s).\\b", "[@-_]|(?-i:[@-_]{2})", "(?-i:[@-_])[@-_]"].iter() {
                ws.push(w.to_string());
            }
            ws.extend(corpus::exhaustive(&ATOMS_CASE, &OPS_QUICK, if thorough { 3 } else { 2 }));
            for ctx in corpus::contexts(corpus::FEATS_C01) {
                for f in corpus::exhaustive(&ATOMS_CASE, &OPS_QUICK, 2) {
                    let is_alt = f.contains('|') && !f.starts_with('(');
                    ws.push(corpus::fill(ctx, &f, is_alt));
                }
            }
            for p in ws {
                let mut it = Item::new(&p, "fixed");
                it.variant = Some(std::format!("(?i){}", p));
                fixed.push(it);
            }
            // the other builder options (backtrack_limit, delegate size limits)
            for p in ["a", "a+", "\\w+x", "[a-z]{3}b", "(?:a|b)*c", "\\pL+", "a+(?=b)", "\\w+x(?=y)", "(\\w+)x\\1", "(?<=a)\\w+", "(?>\\w+)x|[a-z]{3}(?!b)", "\\d+(?=)\\w+", "(a)\\1",
                      "\\bfoo\\b", "(?i)\\w+x(?!y)"].iter() {
                fixed.push(Item::new(p, "builder-options"));
            }
            Some(WorkList { fixed, random_enabled: true, feats: (corpus::FEATS_C01 | corpus::F_CASE) & !corpus::F_MULTIBYTE, max_depth: 3 })
        }
        "C07" | "C20" => {
            for w in corpus::WITNESSES.iter() {
                fixed.push(Item::new(w, "witness"));
            }
            for w in ["(?:a*(?!c)){2,}?b", "((?=a)|a){2,}", "(a*)b(?:\\1){2,}", "(?:(?>a*)){2,}(?=b)", "(?:a?(?=b|$)){3,}", "(?:\\b|a){2,}b"].iter() {
                fixed.push(Item::new(w, "witness"));
            }
            for w in ["(?:a|b)*+c", "(?>(?>a*)b*)c", "(?!(?!a))a", "(?:(?>a|ab)c|.)*", "(?(?=a)(?>a|b)|c)d", "(a|b)*?\\1", "(?:a?){3}b", "(?:(?:a?){2}){2}", "(?>a{1,2}){2}b",
                      "(?<!(?>a|b))c", "(?:(?=(a))\\1|b)+", "(?:a|(?>b|c))*d", "((?>a*))*b", "(?:(?(a)b))*", "(?>(?(a)b|c))+", "((a)|(b))*+\\2"].iter() {
                fixed.push(Item::new(w, "witness"));
            }
            let ex = corpus::exhaustive(&ATOMS_SMALL, &OPS_QUICK, if thorough { 4 } else { 3 });
            for p in ex {
                fixed.push(Item::new(&p, "exhaustive"));
            }
            for w in corpus::compile_matrix(thorough).iter() {
                fixed.push(Item::new(w, "compile-matrix"));
            }
            for w in corpus::capture_restore(true).iter() {
                fixed.push(Item::new(w, "capture-restore"));
            }
            for w in corpus::wide_cut().iter() {
                let mut it = Item::new(w, "wide-cut");
                it.n_extra = 0;
                fixed.push(it);
            }
            for w in corpus::many_groups().iter() {
                let mut it = Item::new(w, "many-groups");
                it.n_extra = 0;
                fixed.push(it);
            }
            for w in corpus::bounded_repeats().iter() {
                fixed.push(Item::new(w, "bounded-repeats"));
            }
            let fillers = corpus::exhaustive(&ATOMS_SMALL, &OPS_QUICK, 2);
            for ctx in corpus::contexts(corpus::FEATS_ALL) {
                for f in &fillers {
                    let is_alt = f.contains('|') && !f.starts_with('(');
                    fixed.push(Item::new(&corpus::fill(ctx, f, is_alt), "context-x-filler"));
                }
            }
            Some(WorkList { fixed, random_enabled: true, feats: corpus::FEATS_ALL, max_depth: if thorough { 4 } else { 3 } })
        }
        "C13" => {
            for w in corpus::WITNESSES.iter() {
                fixed.push(Item::new(w, "witness"));
            }
            for w in ["(?<=(?(a)a|bbb))b", "(?<=(?(a)a|bb))c", "(a)?.(?<=(?(1)b|cc))d", "(?<=(?(a)ab|b))c", "(?<!(?(a)a|bb))c"].iter() {
                fixed.push(Item::new(w, "witness"));
            }
            for w in ["(?(a)b)", "(?(a)b|c)", "(?(a)bc|d)", "(?<=(?(a)b|c))d", "(?<=a?)b", "(?<=a|bc)d", "(?<=(?:a|bc))d", "(?<=a{2})b", "(?<=a{1,2})b", "(?<=\\bé)a", "(?<=€|ab)c",
                      "(?<!é|aa)b", "(?<=(a))\\1", "(?<=a(?=b))b", "(?<=.)\\b", "(?<=(?i:k))a", "(?<=[é€])a", "(?<=a\\K)b", "(?<=(?>a|bb))c", "(?<=(?:a|b)c)d", "(a)(?<=\\1)", "(?<=a*)b", "(?<=(a|bc))d"].iter() {
                fixed.push(Item::new(w, "witness"));
            }
            for w in corpus::alt_order(false).iter().step_by(2) {
                fixed.push(Item::new(w, "alt-order"));
                fixed.push(Item::new(&std::format!("(?<={})c", w.replace("\\1", "")), "alt-order-in-lookbehind"));
            }
            // the size facts of every escape / assertion / class form
            for w in corpus::ingredient_sweep(false).iter() {
                fixed.push(Item::new(w, "ingredient-sweep"));
            }
            let ex = corpus::exhaustive(&["a", "b", ".", "é"], &OPS_QUICK, if thorough { 4 } else { 3 });
            for p in ex {
                fixed.push(Item::new(&p, "exhaustive"));
            }
            let fillers = corpus::exhaustive(&["a", "bc", ".", "é", "[ab]"], &["cap", "?", "{2}", "{1,2}", "atomic", "(?="], 2);
            for ctx in ["(?<=H)b", "(?<!H).", "(?<=aH)b", "(?<=H|c)b", "(?(H)a|bc)", "(?:H){2}", "(?>H)a", "(?<=(?(a)H|bb))c", "(?<=(?(a)a|H))c"].iter() {
                for f in &fillers {
                    let is_alt = f.contains('|') && !f.starts_with('(');
                    let s = if is_alt { ctx.replace("H", &std::format!("(?:{})", f)) } else { ctx.replace("H", f) };
                    fixed.push(Item::new(&s, "context-x-filler"));
                }
            }
            Some(WorkList { fixed, random_enabled: true, feats: corpus::FEATS_ALL & !corpus::F_CONTG, max_depth: if thorough { 4 } else { 3 } })
        }
        "C17" => {
            let strs = escape_strings(if thorough { 3 } else { 2 });
            for s in strs {
                let esc = crate::escape(&s).to_string();
                for (host, times) in ESCAPE_HOSTS.iter() {

                    let mut it = Item::new(&host.replace("H", &esc), "escape-host");
                    it.note = s.clone();
                    it.variant = Some(s.repeat(*times));
                    fixed.push(it);
                }
            }
            Some(WorkList { fixed, random_enabled: false, feats: 0, max_depth: 0 })
        }
        "C04" => {
            for w in ["(\\b)*", "(\\B)*", "(?:\\b|(a)){2,}", "(?:\\b|a)*?b"].iter() {
                fixed.push(Item::new(w, "f1-witness"));
            }
            // flag scoping: negated flags, flags that end with their group, combinations
            for body in ["\\ba", "a.\\b", "^a$\\b", "a+?b\\b", "[a-c]\\B.", "a\\b.b"].iter() {
                for f in ["(?-i:X)", "(?-s:X)", "(?-m:X)", "(?-U:X)", "(?s-m:X)", "(?i-s:X)", "(?m-i:X)", "((?i)X)b", "(?:(?s)X).", "((?m)X)$", "(?i)(?-i)X", "(?i:(?-i:X))a", "(?U)(?-U:X)", "(?x: X )", "(?x-i: X # c\n)"].iter() {
                    fixed.push(Item::new(&f.replace("X", body), "flag-scoping"));
                }
            }
            for w in ["(?i)[é]", "(?i:[^é])a", "(?i)[à-ü]\\b", "(?i)a|b|c", "(?i)a|b|c|d\\b", "(?s)a|.|^", "(?m)a|^|$"].iter() {
                fixed.push(Item::new(w, "witness"));
            }
            for w in ["\\bab\\b", "\\Ba", "a\\b.", "(a|ab)(c|bcd)?", "(?i)a[bc]", "(?m)^a$", "(?s).a", "(?x) a b ", "(?U)a+b", "(?P<n>a)(?P<m>b)?", "a*?b", "[^a]\\b", "\\w+\\b\\d?", "(?:a|\\b)+b", "(\\b)a", "\\b(?i:A)\\B"].iter() {
                fixed.push(Item::new(w, "witness"));
            }
            // character classes with escaped and special members (the class text is re-printed
            // by the parser before it reaches regex-syntax), in wrapped and VM-compiled hosts
            for c in ["[a\\-c]", "[+\\-*]", "[a\\-]", "[\\-a]", "[a-c\\-e]", "[\\^a]", "[a\\]b]", "[\\[a]", "[a\\\\b]", "[\\&\\&a]", "[a\\~\\~b]", "[a-c&&[^b]]",
                      "[[:alpha:]]", "[^\\-a]", "[\\x41-\\x43]", "[\\d\\-a]", "[a\\.b]", "[\\n]", "[ \\t]", "[.]", "[*+?]", "[\\w&&[^_]]", "[a-c&&b-d]", "[a\\-c-e]", "[\\+\\-\\*]", "[^\\]]", "[a^]", "[a\\|b]"].iter() {
                for h in ["X\\b", "\\bX+\\b", "X+", "(?i)X\\B.", "(X)\\b|a"].iter() {
                    fixed.push(Item::new(&h.replace("X", c), "class-syntax"));
                }
            }
            for w in corpus::ingredient_sweep(true).iter() {
                fixed.push(Item::new(w, "ingredient-sweep"));
            }
            for h in ["\\b", "\\B."].iter() {
                for w in corpus::start_anchor_shapes(h).iter() {
                    if !w.contains("(?!") && !w.contains("(?=") && !w.contains("(?>") && !w.contains("(?<=") {
                        fixed.push(Item::new(w, "start-anchor-shapes"));
                    }
                }
            }
            let ex = corpus::exhaustive(&ATOMS_COMMON, &OPS_COMMON, if thorough { 4 } else { 3 });
            for p in ex {
                fixed.push(Item::new(&p, "exhaustive"));
            }
            for w in corpus::alt_order(true).iter() {
                fixed.push(Item::new(w, "alt-order"));
            }
            Some(WorkList { fixed, random_enabled: true, feats: corpus::F_CLASS | corpus::F_ANCHOR | corpus::F_WORDB | corpus::F_LAZY | corpus::F_FLAGS | corpus::F_MULTIBYTE, max_depth: if thorough { 4 } else { 3 } })
        }
        _ => None,
    }
}

pub fn random_item(cfg: &RunCfg, w: &WorkList, rng: &mut Rng, _k: usize) -> Option<Item> {
    match cfg.prop.as_str() {
        "C03" => {
            for _ in 0..20 {
                let p = corpus::random_pattern(rng, w.feats, w.max_depth);
                let mut v = Vec::new();
                inject_items(&p, "random", Some(rng), &mut v);
                if let Some(it) = v.pop() {
                    return Some(it);
                }
            }
            Some(Item::new("a", "random-fallback"))
        }
        "C19" => {
            if _k % 5 < 2 {
                // generated tree: both spellings must parse back to exactly this tree
                for _ in 0..10 {
                    if let Some((e, base)) = crate::exprgen::random(rng, w.feats, w.max_depth) {
                        let name = *rng.pick(&STYLES);
                        if let Some(v) = unparse::unparse(&e, &style_named(name)) {
                            if v != base {
                                let mut it = Item::from_tree(e, &base, "random-tree");
                                it.variant = Some(v);
                                it.note = name.to_string();
                                return Some(it);
                            }
                        }
                    }
                }
            }
            for _ in 0..20 {
                let p = corpus::random_pattern(rng, w.feats, w.max_depth);
                let name = *rng.pick(&STYLES);
                let mut v = Vec::new();
                respell_items(&p, "random", Some(name), &mut v);
                if let Some(it) = v.pop() {
                    return Some(it);
                }
            }
            let mut it = Item::new("a*+", "random-fallback");
            it.variant = Some("(?>a*)".to_string());
            Some(it)
        }
        "C14" => {
            let p = corpus::random_pattern(rng, w.feats, w.max_depth);
            let mut it = Item::new(&p, "random");
            it.variant = Some(std::format!("(?i){}", p));
            Some(it)
        }
        "C07" | "C20" | "C13" | "C04" => Some(Item::new(&corpus::random_pattern(rng, w.feats, w.max_depth), "random")),
        _ => None,
    }
}
