//! Oracles for the public API wrappers in lib.rs (find_iter, captures_iter, split,
//! splitn, try_replacen, Captures accessors): the repository's real wrapper code is
//! executed; every search it makes is redirected to the symbolic text (the real VM for
//! fancy patterns, the automaton model for wrapped ones), so the wrappers' control flow
//! forks with the solver like the VM itself.
//!
//! This file is part of /verif (overlay), not of the repository.

use std::string::String;
use std::vec::Vec;

use crate::corpus::{self, Item, Rng, WorkList};
use crate::hirmodel;
use crate::props::{drive, parse_raw, Body, Fail, Obs, PatReport};
use crate::refsem::{self, Outcome, RProg};
use crate::symtext::{Cls, Text};
use crate::symx_api::{self, Built, RunCfg};
use crate::{Captures, NoExpand, Regex};

fn union_classes(a: &[Cls], b: &[Cls]) -> Vec<Cls> {
    let mut v: Vec<Cls> = a.to_vec();
    for c in b {
        if !v.iter().any(|x| x.id == c.id) {
            v.push(c.clone());
        }
    }
    v
}

/// A concrete text with the same UTF-8 layout as `t` (the wrappers only look at the
/// layout: `next_utf8` and slicing).
fn placeholder<T: Text + ?Sized>(t: &T) -> String {
    let mut s = String::new();
    let mut i = 0;
    while i < t.len() {
        let w = hirmodel::char_width(t, i);
        s.push(match w {
            1 => 'a',
            2 => 'é',
            3 => '€',
            _ => '😀',
        });
        i += w;
    }
    s
}

/// Run `f` with a concrete `&str` standing for `t`: `t` itself when it is concrete,
/// otherwise a placeholder of the same layout with the symbolic session installed.
fn with_text<T: Text + ?Sized, R>(b: &Built, t: &T, f: impl FnOnce(&str) -> R) -> R {
    if let Some(s) = t.as_str() {
        f(s)
    } else {
        let sym = t.as_sym().expect("symbolic text");
        let ph = placeholder(t);
        let _g = symx_api::install_session(sym, b.wrap.clone());
        symx_api::set_placeholder(&ph);
        f(&ph)
    }
}

fn err_name(e: &crate::Error) -> String {
    match e {
        crate::Error::RuntimeError(crate::RuntimeError::StackOverflow) => "StackOverflow".to_string(),
        crate::Error::RuntimeError(crate::RuntimeError::BacktrackLimitExceeded) => "BacktrackLimitExceeded".to_string(),
        other => std::format!("{:?}", other),
    }
}

#[derive(Clone, Debug, PartialEq, Eq)]
enum It {
    M(usize, usize),
    E(String),
}

fn canon_seq(v: &[It]) -> String {
    let mut s = String::new();
    for x in v {
        match x {
            It::M(a, b) => s.push_str(&std::format!("[{},{}]", a, b)),
            It::E(e) => s.push_str(&std::format!("E:{};", e)),
        }
    }
    s
}

/// Drive the real `Matches` iterator to exhaustion (bounded: a correct iterator yields
/// at most len + 2 items).
fn real_find_iter(re: &Regex, text: &str) -> (Vec<It>, bool) {
    let mut out = Vec::new();
    let cap = text.len() + 4;
    let mut it = re.find_iter(text);
    loop {
        match it.next() {
            None => return (out, true),
            Some(Ok(m)) => {
                let _ = m.as_str();
                out.push(It::M(m.start(), m.end()));
            }
            Some(Err(e)) => out.push(It::E(err_name(&e))),
        }
        if out.len() > cap {
            return (out, false);
        }
    }
}

fn caps_canon(c: &Captures) -> String {
    let mut s = String::from("M");
    for i in 0..c.len() {
        match c.get(i) {
            None => s.push_str("[-]"),
            Some(m) => s.push_str(&std::format!("[{},{}]", m.start(), m.end())),
        }
    }
    s
}

type Groups = Vec<Option<(usize, usize)>>;

fn real_captures_iter(re: &Regex, text: &str) -> (Vec<It>, Vec<Groups>, bool) {
    let mut out = Vec::new();
    let mut full: Vec<Groups> = Vec::new();
    let cap = text.len() + 4;
    let mut it = re.captures_iter(text);
    loop {
        match it.next() {
            None => return (out, full, true),
            Some(Ok(c)) => {
                let m = c.get(0);
                match m {
                    Some(m) => out.push(It::M(m.start(), m.end())),
                    None => out.push(It::E("group 0 missing".to_string())),
                }
                full.push((0..c.len()).map(|i| c.get(i).map(|m| (m.start(), m.end()))).collect());
            }
            Some(Err(e)) => {
                out.push(It::E(err_name(&e)));
                full.push(Vec::new());
            }
        }
        if out.len() > cap {
            return (out, full, false);
        }
    }
}

fn next_char<T: Text + ?Sized>(t: &T, i: usize) -> usize {
    if i >= t.len() {
        i + 1
    } else {
        i + hirmodel::char_width(t, i)
    }
}

/// Reference iteration: repeatedly take the reference leftmost match from the previous
/// end; after an empty match step one character; drop an empty match adjacent to the
/// previous match.  None when the reference gives up (step cap).
fn ref_find_iter<T: Text + ?Sized>(rp: &RProg, t: &T) -> Option<Vec<It>> {
    let mut out = Vec::new();
    let mut last_end = 0usize;
    let mut last_match: Option<usize> = None;
    loop {
        if last_end > t.len() {
            break;
        }
        let skipped = match last_match {
            Some(lm) => last_end > lm,
            None => false,
        };
        let r = refsem::search(rp, t, last_end, skipped, crate::props::REF_STEP_CAP);
        let (s, e) = match r.outcome {
            Outcome::Match(c) => c[0].unwrap(),
            Outcome::NoMatch => break,
            _ => return None,
        };
        if s == e {
            last_end = next_char(t, e);
            if Some(e) == last_match {
                continue;
            }
        } else {
            last_end = e;
        }
        last_match = Some(e);
        out.push(It::M(s, e));
        if out.len() > t.len() + 4 {
            return None;
        }
    }
    Some(out)
}

// ---------------------------------------------------------------------------
// C08: find_iter

pub struct FindIterBody<'a> {
    pub b: &'a Built,
    pub limited: Option<&'a Built>,
    pub rp: Option<&'a RProg>,
}

impl<'a> Body for FindIterBody<'a> {
    fn panic_op(&self) -> &'static str {
        "entry_points"
    }
    fn positions(&self, _widths: &[usize]) -> Vec<usize> {
        vec![0]
    }
    fn run<T: Text + ?Sized>(&self, t: &T, _pos: usize) -> Obs {
        let mut o = Obs::default();
        let (seq, terminated) = with_text(self.b, t, |s| real_find_iter(&self.b.regex, s));
        o.items.push(canon_seq(&seq));
        o.matched = seq.iter().any(|x| matches!(x, It::M(..)));
        let mk = |what: String, pattern: &str, limit: Option<usize>, observed: String, expected: String| Fail {
            what,
            op: "find_iter".to_string(),
            pattern: pattern.to_string(),
            casei: false,
            limit,
            arg: 0,
            observed,
            expected,
        };
        if !terminated {
            o.fail = Some(mk("find_iter yields more than len+4 items".to_string(), &self.b.src, None, canon_seq(&seq), "termination".to_string()));
            return o;
        }
        // structure: strictly increasing, non-overlapping, never before the previous end
        let mut prev: Option<(usize, usize)> = None;
        let mut after_err = false;
        for x in &seq {
            if after_err {
                o.fail = Some(mk("an item is yielded after an Err item".to_string(), &self.b.src, None, canon_seq(&seq), "nothing after Err".to_string()));
                return o;
            }
            match x {
                It::E(_) => after_err = true,
                It::M(s, e) => {
                    if let Some((ps, pe)) = prev {
                        if *s < pe || (*s, *e) <= (ps, pe) || *e < pe {
                            o.fail = Some(mk(
                                std::format!("match ({},{}) overlaps or does not follow the previous match ({},{})", s, e, ps, pe),
                                &self.b.src,
                                None,
                                canon_seq(&seq),
                                "strictly increasing, non-overlapping matches".to_string(),
                            ));
                            return o;
                        }
                    }
                    if s > e || *e > t.len() {
                        o.fail = Some(mk("invalid span".to_string(), &self.b.src, None, canon_seq(&seq), "start <= end <= len".to_string()));
                        return o;
                    }
                    prev = Some((*s, *e));
                }
            }
        }
        // the sequence equals the reference iteration
        if let Some(rp) = self.rp {
            match ref_find_iter(rp, t) {
                None => o.not_covered = Some("reference step cap".to_string()),
                Some(exp) => {
                    o.items.push(std::format!("ref={}", canon_seq(&exp)));
                    if exp != seq {
                        o.fail = Some(mk(
                            "find_iter differs from the reference iteration".to_string(),
                            &self.b.src,
                            None,
                            canon_seq(&seq),
                            canon_seq(&exp),
                        ));
                        return o;
                    }
                }
            }
        }
        // error histories: with a tiny backtrack limit the items before the first Err are a
        // prefix of the unlimited sequence and nothing follows the Err
        if let Some(lb) = self.limited {
            let (lseq, lterm) = with_text(lb, t, |s| real_find_iter(&lb.regex, s));
            o.items.push(std::format!("limited={}", canon_seq(&lseq)));
            let lim = Some(lb.opts.0.backtrack_limit);
            if !lterm {
                o.fail = Some(mk("find_iter with a backtrack limit does not terminate".to_string(), &lb.src, lim, canon_seq(&lseq), "termination".to_string()));
                return o;
            }
            let mut k = 0;
            let mut seen_err = false;
            for x in &lseq {
                if seen_err {
                    o.fail = Some(mk("an item is yielded after an Err item".to_string(), &lb.src, lim, canon_seq(&lseq), "nothing after Err".to_string()));
                    return o;
                }
                match x {
                    It::E(_) => seen_err = true,
                    m => {
                        if seq.get(k) != Some(m) {
                            o.fail = Some(mk(
                                "items before the first Err are not a prefix of the unlimited sequence".to_string(),
                                &lb.src,
                                lim,
                                canon_seq(&lseq),
                                canon_seq(&seq),
                            ));
                            return o;
                        }
                        k += 1;
                    }
                }
            }
            if !seen_err && lseq != seq {
                o.fail = Some(mk("limited run without Err differs from the unlimited sequence".to_string(), &lb.src, lim, canon_seq(&lseq), canon_seq(&seq)));
            }
        }
        o
    }
}

// ---------------------------------------------------------------------------
// C09: coherence of the entry points

pub struct CoherenceBody<'a> {
    pub b: &'a Built,
}

impl<'a> Body for CoherenceBody<'a> {
    fn panic_op(&self) -> &'static str {
        "coherence"
    }
    fn run<T: Text + ?Sized>(&self, t: &T, pos: usize) -> Obs {
        let mut o = Obs::default();
        let re = &self.b.regex;
        let s = with_text(self.b, t, |s| {
            let mut parts: Vec<String> = Vec::new();
            let find = match re.find_from_pos(s, pos) {
                Ok(Some(m)) => std::format!("M[{},{}]", m.start(), m.end()),
                Ok(None) => "N".to_string(),
                Err(e) => std::format!("E:{}", err_name(&e)),
            };
            let caps = match re.captures_from_pos(s, pos) {
                Ok(Some(c)) => match c.get(0) {
                    Some(m) => std::format!("M[{},{}]", m.start(), m.end()),
                    None => "M[-]".to_string(),
                },
                Ok(None) => "N".to_string(),
                Err(e) => std::format!("E:{}", err_name(&e)),
            };
            parts.push(std::format!("find_from_pos={}", find));
            parts.push(std::format!("captures_from_pos0={}", caps));
            if pos == 0 {
                let im = match re.is_match(s) {
                    Ok(b) => std::format!("{}", b),
                    Err(e) => std::format!("E:{}", err_name(&e)),
                };
                let f0 = match re.find(s) {
                    Ok(Some(m)) => std::format!("M[{},{}]", m.start(), m.end()),
                    Ok(None) => "N".to_string(),
                    Err(e) => std::format!("E:{}", err_name(&e)),
                };
                let c0 = match re.captures(s) {
                    Ok(Some(c)) => match c.get(0) {
                        Some(m) => std::format!("M[{},{}]", m.start(), m.end()),
                        None => "M[-]".to_string(),
                    },
                    Ok(None) => "N".to_string(),
                    Err(e) => std::format!("E:{}", err_name(&e)),
                };
                let (fi, _) = real_find_iter(re, s);
                let (ci, _, _) = real_captures_iter(re, s);
                parts.push(std::format!("is_match={}", im));
                parts.push(std::format!("find={}", f0));
                parts.push(std::format!("captures0={}", c0));
                parts.push(std::format!("find_iter={}", canon_seq(&fi)));
                parts.push(std::format!("captures_iter0={}", canon_seq(&ci)));
            }
            parts
        });
        let get = |k: &str| -> Option<String> {
            s.iter().find(|x| x.starts_with(&std::format!("{}=", k))).map(|x| x[k.len() + 1..].to_string())
        };
        o.items = s.clone();
        let find = get("find_from_pos").unwrap();
        o.matched = find.starts_with('M');
        let mut bad: Option<String> = None;
        if get("captures_from_pos0").unwrap() != find {
            bad = Some("captures_from_pos(t,p).get(0) differs from find_from_pos(t,p)".to_string());
        }
        if pos == 0 && bad.is_none() {
            let im = get("is_match").unwrap();
            let f0 = get("find").unwrap();
            let c0 = get("captures0").unwrap();
            let is_err = |x: &str| x.starts_with("E:");
            if !(is_err(&im) || is_err(&f0) || is_err(&c0)) {
                let a = im == "true";
                if a != f0.starts_with('M') || a != c0.starts_with('M') {
                    bad = Some("is_match, find and captures disagree on whether there is a match".to_string());
                } else if f0 != c0 {
                    bad = Some("captures.get(0) differs from find".to_string());
                }
            } else if !(is_err(&im) && is_err(&f0) && is_err(&c0)) {
                bad = Some("one entry point returns Err where another returns a value".to_string());
            }
            if bad.is_none() && get("find_iter") != get("captures_iter0") {
                bad = Some("captures_iter yields different spans than find_iter".to_string());
            }
        }
        if let Some(what) = bad {
            o.fail = Some(Fail {
                what,
                op: "coherence".to_string(),
                pattern: self.b.src.clone(),
                casei: false,
                limit: None,
                arg: 0,
                observed: s.join(";"),
                expected: "mutually coherent entry points".to_string(),
            });
        }
        o
    }
}

// ---------------------------------------------------------------------------
// C10: split / splitn

pub struct SplitBody<'a> {
    pub b: &'a Built,
    /// the same pattern built with a tiny backtrack limit (a search error in mid-iteration)
    pub limited: Option<&'a Built>,
}

fn collect_pieces<'h, I: Iterator<Item = crate::Result<&'h str>>>(target: &'h str, it: I, cap: usize) -> (Vec<It>, bool) {
    let mut out = Vec::new();
    for p in it {
        match p {
            Ok(p) => {
                let off = p.as_ptr() as usize - target.as_ptr() as usize;
                out.push(It::M(off, off + p.len()));
            }
            Err(e) => out.push(It::E(err_name(&e))),
        }
        if out.len() > cap {
            return (out, false);
        }
    }
    (out, true)
}

impl<'a> Body for SplitBody<'a> {
    fn panic_op(&self) -> &'static str {
        "entry_points"
    }
    fn positions(&self, _widths: &[usize]) -> Vec<usize> {
        vec![0]
    }
    fn run<T: Text + ?Sized>(&self, t: &T, _pos: usize) -> Obs {
        let mut o = Obs::default();
        let re = &self.b.regex;
        let len = t.len();
        let (matches, split, splitns) = with_text(self.b, t, |s| {
            let (fi, _) = real_find_iter(re, s);
            let sp = collect_pieces(s, re.split(s), s.len() + 6);
            let mut ns = Vec::new();
            for n in 0..=5usize {
                ns.push(collect_pieces(s, re.splitn(s, n), s.len() + 6));
            }
            (fi, sp, ns)
        });
        o.items.push(std::format!("find_iter={}", canon_seq(&matches)));
        o.items.push(std::format!("split={}", canon_seq(&split.0)));
        for (n, x) in splitns.iter().enumerate() {
            o.items.push(std::format!("splitn{}={}", n, canon_seq(&x.0)));
        }
        o.matched = !matches.is_empty();
        if matches.iter().any(|x| matches!(x, It::E(_))) {
            o.not_covered = Some("search error".to_string());
            return o;
        }
        // model: the substrings between consecutive matches, plus the tail
        let mut model: Vec<It> = Vec::new();
        let mut prev = 0usize;
        for m in &matches {
            if let It::M(s, e) = m {
                model.push(It::M(prev, *s));
                prev = *e;
            }
        }
        model.push(It::M(prev, len));
        let mk = |what: String, op: &str, arg: usize, observed: String, expected: String| Fail {
            what,
            op: op.to_string(),
            pattern: self.b.src.clone(),
            casei: false,
            limit: None,
            arg,
            observed,
            expected,
        };
        if !split.1 || split.0 != model {
            o.fail = Some(mk(
                "split does not yield exactly the substrings between consecutive find_iter matches".to_string(),
                "split",
                0,
                canon_seq(&split.0),
                canon_seq(&model),
            ));
            return o;
        }
        // rebuild: pieces interleaved with matches cover 0..len contiguously
        let mut at = 0usize;
        for (i, p) in model.iter().enumerate() {
            if let It::M(s, e) = p {
                if *s != at || s > e {
                    o.fail = Some(mk("pieces and matches do not rebuild the input".to_string(), "split", 0, canon_seq(&split.0), "contiguous cover".to_string()));
                    return o;
                }
                at = *e;
                if let Some(It::M(ms, me)) = matches.get(i) {
                    if *ms != at {
                        o.fail = Some(mk("pieces and matches do not rebuild the input".to_string(), "split", 0, canon_seq(&split.0), "contiguous cover".to_string()));
                        return o;
                    }
                    at = *me;
                }
            }
        }
        for (n, x) in splitns.iter().enumerate() {
            let mut exp: Vec<It> = Vec::new();
            if n > 0 {
                let k = n.min(model.len());
                for p in model.iter().take(k - 1) {
                    exp.push(p.clone());
                }
                // the last item is the untouched remainder from the start of the k-th piece
                if let It::M(s, _) = model[k - 1] {
                    exp.push(It::M(s, len));
                }
            }
            if !x.1 || x.0 != exp {
                o.fail = Some(mk(
                    std::format!("splitn(t, {}) does not yield min(n, pieces) items with the remainder last", n),
                    "splitn",
                    n,
                    canon_seq(&x.0),
                    canon_seq(&exp),
                ));
                return o;
            }
        }
        // a search error in mid-iteration: the pieces around the matches found so far, the
        // error, and the rest of the text as the last piece (one more piece than matches,
        // pieces and matches still rebuild the input)
        if let Some(lb) = self.limited {
            let (lfi, lsp) = with_text(lb, t, |s| {
                let (fi, _) = real_find_iter(&lb.regex, s);
                let sp = collect_pieces(s, lb.regex.split(s), s.len() + 6);
                (fi, sp)
            });
            o.items.push(std::format!("limited find_iter={} split={}", canon_seq(&lfi), canon_seq(&lsp.0)));
            let mut exp: Vec<It> = Vec::new();
            let mut prev = 0usize;
            for m in &lfi {
                match m {
                    It::M(s, e) => {
                        exp.push(It::M(prev, *s));
                        prev = *e;
                    }
                    It::E(e) => exp.push(It::E(e.clone())),
                }
            }
            exp.push(It::M(prev, len));
            if !lsp.1 || lsp.0 != exp {
                o.fail = Some(Fail {
                    what: std::format!("with backtrack limit {}: split does not yield the pieces around the matches found, the error, and the rest of the text", lb.opts.0.backtrack_limit),
                    op: "split".to_string(),
                    pattern: lb.src.clone(),
                    casei: false,
                    limit: Some(lb.opts.0.backtrack_limit),
                    arg: 0,
                    observed: canon_seq(&lsp.0),
                    expected: canon_seq(&exp),
                });
                return o;
            }
        }
        o
    }
}

// ---------------------------------------------------------------------------
// C11: try_replacen

pub struct ReplaceBody<'a> {
    pub b: &'a Built,
    pub limited: Option<&'a Built>,
}

fn hex(s: &str) -> String {
    s.as_bytes().iter().map(|b| std::format!("{:02x}", b)).collect()
}

impl<'a> Body for ReplaceBody<'a> {
    fn panic_op(&self) -> &'static str {
        "entry_points"
    }
    fn positions(&self, _widths: &[usize]) -> Vec<usize> {
        vec![0]
    }
    fn run<T: Text + ?Sized>(&self, t: &T, _pos: usize) -> Obs {
        let mut o = Obs::default();
        let re = &self.b.regex;
        let ops = ["replacen_noexpand", "replacen_str", "replacen_closure", "replacen_dollar0", "replacen_dollardollar", "replacen_group1", "replacen_braced",
                   "replacen_unicode_name", "replacen_string", "replacen_trailing_dollar"];
        let res = with_text(self.b, t, |s| {
            let (fi, _) = real_find_iter(re, s);
            let (ci, groups, _) = real_captures_iter(re, s);
            let mut outs: Vec<(usize, usize, Result<(bool, String), String>, String)> = Vec::new();
            for n in 0..=3usize {
                for (k, _) in ops.iter().enumerate() {
                    let r = match k {
                        0 => re.try_replacen(s, n, NoExpand("x")),
                        1 => re.try_replacen(s, n, "x"),
                        2 => re.try_replacen(s, n, |_: &Captures| "x".to_string()),
                        3 => re.try_replacen(s, n, "<$0>"),
                        4 => re.try_replacen(s, n, "$$"),
                        5 => re.try_replacen(s, n, "[$1]"),
                        6 => re.try_replacen(s, n, "${1}a$$"),
                        // `$` + a non-ASCII identifier: a reference to a group that does not exist
                        7 => re.try_replacen(s, n, "<$\u{e9}x>"),
                        8 => re.try_replacen(s, n, String::from("x")),
                        // a trailing `$` is copied verbatim
                        _ => re.try_replacen(s, n, "a$"),
                    };
                    let r2 = match r {
                        Ok(c) => Ok((matches!(c, std::borrow::Cow::Borrowed(_)), c.to_string())),
                        Err(e) => Err(err_name(&e)),
                    };
                    // model from the matches the same path yields: fast path (k == 0, 1) follows
                    // find_iter, the slow path captures_iter
                    // (a template with `$` and a closure take the captures path)
                    let src = if k <= 1 || k == 8 { &fi } else { &ci };
                    let mut m = String::new();
                    let mut last = 0usize;
                    let mut err = None;
                    let mut cnt = 0usize;
                    let group1 = |idx: usize| -> &str {
                        match groups.get(idx).and_then(|g| g.get(1)).cloned().flatten() {
                            Some((a, z)) => &s[a..z],
                            None => "",
                        }
                    };
                    for (idx, x) in src.iter().enumerate() {
                        match x {
                            It::E(e) => {
                                err = Some(e.clone());
                                break;
                            }
                            It::M(a, z) => {
                                if n > 0 && cnt >= n {
                                    break;
                                }
                                m.push_str(&s[last..*a]);
                                match k {
                                    3 => {
                                        m.push('<');
                                        m.push_str(&s[*a..*z]);
                                        m.push('>');
                                    }
                                    // `$$` is a literal `$`
                                    4 => m.push('$'),
                                    // `$1` / `${1}`: the group's text, or nothing if absent
                                    5 => {
                                        m.push('[');
                                        m.push_str(group1(idx));
                                        m.push(']');
                                    }
                                    6 => {
                                        m.push_str(group1(idx));
                                        m.push_str("a$");
                                    }
                                    7 => m.push_str("<>"),
                                    9 => m.push_str("a$"),
                                    _ => m.push('x'),
                                }
                                last = *z;
                                cnt += 1;
                            }
                        }
                    }
                    m.push_str(&s[last..]);
                    let model = match err {
                        Some(e) => std::format!("E:{}", e),
                        None => {
                            let borrowed = src.is_empty();
                            std::format!("{}:{}", if borrowed { "B" } else { "O" }, hex(if borrowed { s } else { &m }))
                        }
                    };
                    outs.push((n, k, r2, model));
                }
            }
            (fi, outs)
        });
        let (fi, outs) = res;
        o.matched = !fi.is_empty();
        o.items.push(std::format!("find_iter={}", canon_seq(&fi)));
        let mut first_bad: Option<Fail> = None;
        let mut plain: Vec<Option<String>> = vec![None; 4];
        for (n, k, r, model) in &outs {
            let got = match r {
                Ok((b, s)) => std::format!("{}:{}", if *b { "B" } else { "O" }, hex(s)),
                Err(e) => std::format!("E:{}", e),
            };
            // what is comparable between the placeholder run and the concrete run
            o.items.push(std::format!("n{}k{}:ok={},len={}", n, k, got == *model, match r { Ok((_, s)) => s.len() as i64, Err(_) => -1 }));
            if first_bad.is_some() {
                continue;
            }
            if got != *model {
                // an Err raised only after the limit was reached is allowed to differ: the model
                // stops at the limit too, so any difference is a finding
                first_bad = Some(Fail {
                    what: std::format!("try_replacen(limit {}) with replacer {} does not rewrite exactly the first n matches", n, ops[*k]),
                    op: ops[*k].to_string(),
                    pattern: self.b.src.clone(),
                    casei: false,
                    limit: None,
                    arg: *n,
                    observed: got.clone(),
                    expected: model.clone(),
                });
                continue;
            }
            // the three $-free replacers agree
            if *k <= 2 {
                match &plain[*n] {
                    None => plain[*n] = Some(got.clone()),
                    Some(p) => {
                        if *p != got {
                            first_bad = Some(Fail {
                                what: std::format!("NoExpand, plain string and closure replacers disagree for limit {}", n),
                                op: ops[*k].to_string(),
                                pattern: self.b.src.clone(),
                                casei: false,
                                limit: None,
                                arg: *n,
                                observed: got.clone(),
                                expected: p.clone(),
                            });
                        }
                    }
                }
            }
        }
        o.fail = first_bad;
        if o.fail.is_some() {
            return o;
        }
        // a search error must come back as Err (both paths), not as a panic and not swallowed
        if let Some(lb) = self.limited {
            let lim = Some(lb.opts.0.backtrack_limit);
            let (lfi, a, b, c) = with_text(lb, t, |s| {
                let (lfi, _) = real_find_iter(&lb.regex, s);
                let canon = |r: crate::Result<std::borrow::Cow<str>>| match r {
                    Ok(c) => Ok(std::format!("{}:{}", if matches!(c, std::borrow::Cow::Borrowed(_)) { "B" } else { "O" }, hex(&c))),
                    Err(e) => Err(err_name(&e)),
                };
                let a = canon(lb.regex.try_replacen(s, 0, NoExpand("x")));
                let b = canon(lb.regex.try_replacen(s, 0, "[$1]"));
                let c = canon(lb.regex.try_replacen(s, 0, |_: &Captures| "x".to_string()));
                (lfi, a, b, c)
            });
            o.items.push(std::format!("limited={} {} {} {}", canon_seq(&lfi), a.is_ok(), b.is_ok(), c.is_ok()));
            let any_err = lfi.iter().any(|x| matches!(x, It::E(_)));
            for (k, r) in [(0usize, &a), (5usize, &b), (2usize, &c)].iter() {
                if r.is_err() != any_err {
                    o.fail = Some(Fail {
                        what: std::format!(
                            "with backtrack limit {:?}: find_iter {} an error but try_replacen (replace all, replacer {}) returns {:?}",
                            lim, if any_err { "hits" } else { "does not hit" }, ops[*k], r
                        ),
                        op: ops[*k].to_string(),
                        pattern: lb.src.clone(),
                        casei: false,
                        limit: lim,
                        arg: 0,
                        observed: match r { Ok(s) => s.clone(), Err(e) => std::format!("E:{}", e) },
                        expected: if any_err { "Err".to_string() } else { "Ok".to_string() },
                    });
                    break;
                }
            }
        }
        o
    }
}

// ---------------------------------------------------------------------------
// C05 (API level): every entry point returns normally and reports valid offsets

pub struct EntryPointsBody<'a> {
    pub b: &'a Built,
}

impl<'a> Body for EntryPointsBody<'a> {
    fn panic_op(&self) -> &'static str {
        "entry_points"
    }
    fn positions(&self, _widths: &[usize]) -> Vec<usize> {
        vec![0]
    }
    fn run<T: Text + ?Sized>(&self, t: &T, _pos: usize) -> Obs {
        let mut o = Obs::default();
        let re = &self.b.regex;
        let (fi, groups, sp, spn, r1, r2) = with_text(self.b, t, |s| {
            let (fi, _) = real_find_iter(re, s);
            let (_, groups, _) = real_captures_iter(re, s);
            let sp = collect_pieces(s, re.split(s), s.len() + 6).0;
            let spn = collect_pieces(s, re.splitn(s, 2), s.len() + 6).0;
            let r1 = re.try_replacen(s, 0, NoExpand("x")).map(|c| c.len()).map_err(|e| err_name(&e));
            let r2 = re.try_replacen(s, 0, "[$1]").map(|c| c.len()).map_err(|e| err_name(&e));
            // the Index impls
            if let Ok(Some(c)) = re.captures(s) {
                let _ = &c[0];
            }
            (fi, groups, sp, spn, r1, r2)
        });
        o.matched = !fi.is_empty();
        o.items.push(std::format!("find_iter={}", canon_seq(&fi)));
        o.items.push(std::format!("captures_iter={:?}", groups));
        o.items.push(std::format!("split={}", canon_seq(&sp)));
        o.items.push(std::format!("splitn2={}", canon_seq(&spn)));
        o.items.push(std::format!("replace={:?}/{:?}", r1, r2));
        let valid = |s: usize, e: usize| s <= e && e <= t.len() && crate::props::is_boundary(t, s) && crate::props::is_boundary(t, e);
        let mut bad: Option<(String, String, String)> = None;
        for x in fi.iter() {
            if let It::M(s, e) = x {
                if !valid(*s, *e) {
                    bad = Some((std::format!("find_iter reports the invalid span ({},{})", s, e), "find_iter".to_string(), canon_seq(&fi)));
                }
            }
        }
        for g in groups.iter() {
            for x in g.iter() {
                if let Some((s, e)) = x {
                    if !valid(*s, *e) && bad.is_none() {
                        let mut seq = String::new();
                        for gg in groups.iter() {
                            seq.push('M');
                            for y in gg.iter() {
                                match y {
                                    None => seq.push_str("[-]"),
                                    Some((a, z)) => seq.push_str(&std::format!("[{},{}]", a, z)),
                                }
                            }
                            seq.push(';');
                        }
                        bad = Some((std::format!("captures_iter reports the invalid span ({},{})", s, e), "captures_iter".to_string(), seq));
                    }
                }
            }
        }
        for x in sp.iter().chain(spn.iter()) {
            if let It::M(s, e) = x {
                if !valid(*s, *e) && bad.is_none() {
                    bad = Some((std::format!("split reports the invalid piece ({},{})", s, e), "split".to_string(), canon_seq(&sp)));
                }
            }
        }
        if let Some((what, op, observed)) = bad {
            o.fail = Some(Fail {
                what,
                op,
                pattern: self.b.src.clone(),
                casei: false,
                limit: None,
                arg: 0,
                observed,
                expected: "start <= end <= len on character boundaries".to_string(),
            });
        }
        o
    }
}

pub fn drive_entry_points(cfg: &RunCfg, b: &Built, classes: &[Cls], rep: &mut PatReport) {
    let body = EntryPointsBody { b };
    drive(&cfg.prop, &body, classes, cfg.n, cfg, rep);
}

// ---------------------------------------------------------------------------
// C16: group metadata

pub struct MetaBody<'a> {
    pub b: &'a Built,
    pub names: Vec<(String, usize)>,
}

pub fn meta_canon(re: &Regex, names: &[(String, usize)], s: &str, pos: usize) -> String {
    let mut parts: Vec<String> = Vec::new();
    let cl = re.captures_len();
    parts.push(std::format!("captures_len={}", cl));
    match re.captures_from_pos(s, pos) {
        Ok(Some(c)) => {
            parts.push(std::format!("len={}", c.len()));
            let gets: Vec<String> = (0..c.len() + 2)
                .map(|i| match c.get(i) {
                    Some(m) => std::format!("[{},{}]", m.start(), m.end()),
                    None => "[-]".to_string(),
                })
                .collect();
            parts.push(std::format!("get={}", gets.join("")));
            let iters: Vec<String> = c
                .iter()
                .map(|m| match m {
                    Some(m) => std::format!("[{},{}]", m.start(), m.end()),
                    None => "[-]".to_string(),
                })
                .collect();
            parts.push(std::format!("iter={}", iters.join("")));
            let nm: Vec<String> = names
                .iter()
                .map(|(n, i)| {
                    let a = c.name(n).map(|m| (m.start(), m.end()));
                    let b = c.get(*i).map(|m| (m.start(), m.end()));
                    std::format!("{}:{}", n, if a == b { "same" } else { "DIFFERENT" })
                })
                .collect();
            parts.push(std::format!("name={}", nm.join(",")));
        }
        Ok(None) => parts.push("N".to_string()),
        Err(e) => parts.push(std::format!("E:{}", err_name(&e))),
    }
    parts.join(";")
}

impl<'a> Body for MetaBody<'a> {
    fn panic_op(&self) -> &'static str {
        "captures_meta"
    }
    fn run<T: Text + ?Sized>(&self, t: &T, pos: usize) -> Obs {
        let mut o = Obs::default();
        let s = with_text(self.b, t, |s| meta_canon(&self.b.regex, &self.names, s, pos));
        o.items.push(s.clone());
        o.matched = s.contains(";len=");
        if !o.matched {
            return o;
        }
        let field = |k: &str| -> String {
            s.split(';').find(|x| x.starts_with(&std::format!("{}=", k))).map(|x| x[k.len() + 1..].to_string()).unwrap_or_default()
        };
        let cl: usize = field("captures_len").parse().unwrap_or(usize::MAX);
        let len: usize = field("len").parse().unwrap_or(usize::MAX - 1);
        let get = field("get");
        let iter = field("iter");
        let mut bad: Option<String> = None;
        if len != cl {
            bad = Some(std::format!("Captures::len {} differs from Regex::captures_len {}", len, cl));
        } else if !get.starts_with(&iter) {
            bad = Some("iter() does not yield len() items equal to get(i)".to_string());
        } else if get[iter.len()..] != *"[-][-]" {
            bad = Some("get(i) for i >= len is not None".to_string());
        } else if get.starts_with("[-]") {
            bad = Some("get(0) is None on a successful search".to_string());
        } else if field("name").contains("DIFFERENT") {
            bad = Some("name(n) differs from get(index of n)".to_string());
        }
        if let Some(what) = bad {
            o.fail = Some(Fail {
                what,
                op: "captures_meta".to_string(),
                pattern: self.b.src.clone(),
                casei: false,
                limit: None,
                arg: 0,
                observed: s,
                expected: "consistent group metadata".to_string(),
            });
        }
        o
    }
}

// ---------------------------------------------------------------------------
// processing

fn count_groups(e: &crate::Expr) -> usize {
    use crate::Expr::*;
    match e {
        Group(c) => 1 + count_groups(c),
        Concat(v) | Alt(v) => v.iter().map(count_groups).sum(),
        LookAround(c, _) | AtomicGroup(c) => count_groups(c),
        Repeat { child, .. } => count_groups(child),
        Conditional { condition, true_branch, false_branch } => count_groups(condition) + count_groups(true_branch) + count_groups(false_branch),
        _ => 0,
    }
}

pub fn process_wrappers(cfg: &RunCfg, item: &Item, rep: &mut PatReport) {
    let tree = match parse_raw(&item.pattern) {
        Ok(t) => t,
        Err(e) => {
            rep.status = std::format!("rejected:{}", e);
            return;
        }
    };
    let b = match symx_api::build(&item.pattern, false, None) {
        Ok(b) => b,
        Err(e) => {
            rep.status = if e.starts_with("SYMX") { std::format!("error:{}", e) } else { std::format!("rejected:{}", e) };
            return;
        }
    };
    rep.insn_kinds = b.insn_kinds;
    rep.fancy = b.fancy;
    rep.tags = crate::props::structural_tags(&tree.expr);
    let rp = refsem::build(&tree.expr);
    if let Some(u) = &rp.unsupported {
        rep.status = std::format!("skipped:{}", u);
        return;
    }
    let classes = union_classes(&b.classes, &rp.classes);
    match cfg.prop.as_str() {
        "C08" => {
            if rp.has_f1 && item.gen != "f1-witness" {
                rep.status = "skipped:F1 class (unbounded repeat over a body that can match empty)".to_string();
                return;
            }
            // conditionals are C15's subject; their known finding would resurface here
            let use_ref = !rp.has_cond;
            let limited = if b.fancy { symx_api::build(&item.pattern, false, Some(1 + (item.pattern.len() % 3))).ok() } else { None };
            // the second build registers its own delegate models; keep both alive
            let body = FindIterBody { b: &b, limited: limited.as_ref(), rp: if use_ref { Some(&rp) } else { None } };
            drive(&cfg.prop, &body, &classes, cfg.n, cfg, rep);
        }
        "C09" => {
            let body = CoherenceBody { b: &b };
            drive(&cfg.prop, &body, &classes, cfg.n, cfg, rep);
        }
        "C10" => {
            let limited = if b.fancy { symx_api::build(&item.pattern, false, Some(1 + (item.pattern.len() % 3))).ok() } else { None };
            let body = SplitBody { b: &b, limited: limited.as_ref() };
            drive(&cfg.prop, &body, &classes, cfg.n, cfg, rep);
        }
        "C11" => {
            let limited = if b.fancy { symx_api::build(&item.pattern, false, Some(1)).ok() } else { None };
            let body = ReplaceBody { b: &b, limited: limited.as_ref() };
            drive(&cfg.prop, &body, &classes, cfg.n, cfg, rep);
        }
        "C16" => {
            // concrete facts about the pattern
            let ngroups = 1 + count_groups(&tree.expr);
            let cl = b.regex.captures_len();
            let names_r = std::panic::catch_unwind(std::panic::AssertUnwindSafe(|| {
                b.regex.capture_names().map(|n| n.map(|s| s.to_string())).collect::<Vec<Option<String>>>()
            }));
            let names: Vec<Option<String>> = match names_r {
                Ok(n) => n,
                Err(_) => {
                    rep.candidates.push(crate::props::Cand {
                        prop: cfg.prop.clone(),
                        what: "capture_names() panics".to_string(),
                        op: "names_meta".to_string(),
                        pattern: item.pattern.clone(),
                        casei: false,
                        limit: None,
                        text: Vec::new(),
                        pos: 0,
                        arg: 0,
                        observed: "PANIC".to_string(),
                        expected: "one entry per group".to_string(),
                    });
                    return;
                }
            };
            let mut named: Vec<(String, usize)> = tree.named_groups.iter().map(|(k, v)| (k.clone(), *v)).collect();
            named.sort();
            let mut bad: Option<String> = None;
            if cl != ngroups {
                bad = Some(std::format!("captures_len {} but the pattern has {} groups (+1)", cl, ngroups - 1));
            } else if names.len() != cl {
                bad = Some(std::format!("capture_names yields {} entries, captures_len is {}", names.len(), cl));
            } else {
                for (n, i) in &named {
                    if names.get(*i).cloned().flatten().as_deref() != Some(n.as_str()) {
                        bad = Some(std::format!("capture_names does not have {} at index {}", n, i));
                    }
                }
                let named_count = names.iter().filter(|x| x.is_some()).count();
                if bad.is_none() && named_count != named.len() {
                    bad = Some("capture_names has names the pattern does not define".to_string());
                }
            }
            if let Some(what) = bad {
                rep.candidates.push(crate::props::Cand {
                    prop: cfg.prop.clone(),
                    what,
                    op: "names_meta".to_string(),
                    pattern: item.pattern.clone(),
                    casei: false,
                    limit: None,
                    text: Vec::new(),
                    pos: 0,
                    arg: 0,
                    observed: std::format!("{};{:?}", cl, names),
                    expected: std::format!("{} groups, names {:?}", ngroups, named),
                });
                return;
            }
            let body = MetaBody { b: &b, names: named };
            drive(&cfg.prop, &body, &classes, cfg.n, cfg, rep);
        }
        _ => {}
    }
}

const ATOMS_SMALL: [&str; 4] = ["a", "b", ".", "[ab]"];
const OPS_QUICK: [&str; 11] = ["cap", "?", "*", "+", "*?", "{2}", "{1,2}", "atomic", "(?=", "(?!", "(?<="];

pub fn work_list(cfg: &RunCfg) -> Option<WorkList> {
    let thorough = cfg.tier == "thorough";
    let mut fixed: Vec<Item> = Vec::new();
    let feats = match cfg.prop.as_str() {
        "C08" | "C10" | "C11" => corpus::FEATS_C01 | corpus::F_CONTG,
        "C09" => corpus::FEATS_ALL,
        "C16" => corpus::FEATS_ALL | corpus::F_NAMED,
        _ => return None,
    };
    for w in corpus::WITNESSES.iter() {
        fixed.push(Item::new(w, "witness"));
    }
    for w in [
        "", "a*", "a*?", "\\b", "(?=a)", "\\G\\d*", "\\Ga", "\\G", "a|\\G", "\\Ga|b", "(?:\\Ga)+", "a\\Kb", "\\Ka", "(?<=a)\\Kb", "a|(?<=\\Ka)b", "(?=a\\K)", "x*(?=b)", "(?m:^)", "$", "\\d*", "(a)|b", "(?<n>a)|(?<m>b)",
        "(?<year>\\d)(?<m>-)?", "(a)(b)?(c)*", "(?P<outer>a(b))c", "(?P<outer>a(b))(?=c)", "(?P<o>(?P<i>a)b)", "(?<o>(?P<i>a)(c))?b", "(?P<x>(a)|(b))(?=)", "é*", "(?<=é)", "\\b|a", "(?!a)", "a??", "(?:a|\\G)b", "[ab]*?(?=b)", "(?>a*)\\b", "\\G(?=a)",
    ]
    .iter()
    {
        fixed.push(Item::new(w, "witness"));
    }
    // unusual assertions and case-insensitive multi-byte literals through every wrapper
    for w in ["\\<", "\\>", "1\\>", "\\<a", "\\B", "\\A|\\z", "\\Z", "(?m:$)", "\\h", "\\H+", "(?i)\u{17f}", "(?i)\u{212a}", "(?i)\u{212a}(?!b)", "(?i)\u{1c5}", "\\x41|\\e", "\\pL", "[^\\d]\\b",
              "\\<(?=)", "\\>(?=)", "(?i)\u{17f}(?=)", ",", "\\|", "1\\.5", "-+", "\\-|\\+"].iter() {
        fixed.push(Item::new(w, "witness"));
    }
    // groups in every group-bearing construct (numbering must agree between the parser, the
    // analyzer and regex-automata's own count of the re-printed text)
    for w in ["(?<=(a))b", "(?<!(a))(b)", "(?!(a))(b)", "(?=(a))(?<n>a)", "(?((a))b|c)", "(a)?(?(1)(b)|(c))", "(?(?=(a))(?<n>a)|(b))", "(?i:(a))(?<n>b)", "(?:(?>(?<n>a)))+b", "(?:(?<n>a)|b)+(?<m>c)?",
              "(a)(b)(c)(d)(e)(f)(g)(h)(i)(j)(?<k>k)?", "(a)(b)(c)(d)(e)(f)(g)(h)(i)(j)(?<k>k)?(?=)", "(?<a>a)(?<b>(?<c>b)|(?<d>c))", "((?<n>a)|(?<m>b))(?=)", "(?<n>a)(?!(?<m>b))(?<o>.)?", "(?x) (?<n> a ) ( b )"].iter() {
        fixed.push(Item::new(w, "witness"));
    }
    if cfg.prop == "C09" {
        // `\G` inside a look-behind: position-sensitive whatever the entry point; coherence
        // between the entry points needs no reference semantics (seed S8-C09)
        for w in ["a(?<=\\Ga)", "a(?<!\\Ga)", "ab(?<=\\Gab)c", "(?<=\\G.)a", "b(?<=\\Gb)|a", "a(?<=\\G.)\\K", "é(?<=\\Gé)"].iter() {
            fixed.push(Item::new(w, "witness"));
        }
    }
    let ex = corpus::exhaustive(&ATOMS_SMALL, &OPS_QUICK, if thorough { 4 } else { 3 });
    for p in ex {
        fixed.push(Item::new(&p, "exhaustive"));
    }
    let fillers = corpus::exhaustive(&ATOMS_SMALL, &OPS_QUICK, 2);
    for ctx in ["\\GH", "H\\K", "(?:H)|\\G", "(?<n>H)", "(H)(?<m>b)?", "H|", "(?:H)*?"].iter() {
        for f in &fillers {
            let is_alt = f.contains('|') && !f.starts_with('(');
            let s = if is_alt { ctx.replace("H", &std::format!("(?:{})", f)) } else { ctx.replace("H", f) };
            fixed.push(Item::new(&s, "context-x-filler"));
        }
    }
    Some(WorkList { fixed, random_enabled: true, feats, max_depth: if thorough { 4 } else { 3 } })
}

pub fn random_item(cfg: &RunCfg, w: &WorkList, rng: &mut Rng, _k: usize) -> Option<Item> {
    match cfg.prop.as_str() {
        "C08" | "C09" | "C10" | "C11" | "C16" => Some(Item::new(&corpus::random_pattern(rng, w.feats, w.max_depth), "random")),
        _ => None,
    }
}
