//! wrapper oracles (under construction)
