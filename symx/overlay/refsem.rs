//! Reference semantics: leftmost, priority-ordered backtracking matcher over the
//! parsed `Expr` tree, with captures passed functionally (whole-state copy).
//! Generic over the text type, so it runs under the same path condition as the
//! real VM.  It shares no code with analyze.rs / compile.rs / vm.rs.
//!
//! This file is part of /verif (overlay), not of the repository.

use std::cell::Cell;
use std::string::String;
use std::vec::Vec;

use crate::hirmodel::{self, look, HProg, H};
use crate::symtext::{Cls, Text};
use crate::{Assertion, Expr, LookAround};

#[derive(Debug, Clone)]
pub enum R {
    Empty,
    Any { nl: bool },
    Assert(Assertion),
    Lit(Vec<u8>),
    Leaf(HProg),
    Concat(Vec<R>),
    Alt(Vec<R>),
    Group(usize, Box<R>),
    Look(Box<R>, LookAround),
    Repeat { child: Box<R>, lo: usize, hi: usize, greedy: bool },
    Backref(usize),
    Atomic(Box<R>),
    KeepOut,
    ContG,
    BackrefExists(usize),
    Cond { c: Box<R>, t: Box<R>, f: Box<R> },
}

#[derive(Debug, Clone)]
pub struct RProg {
    pub root: R,
    /// number of groups including group 0
    pub ngroups: usize,
    pub classes: Vec<Cls>,
    pub uses_word: bool,
    pub has_f1: bool,
    pub has_f1_lazy: bool,
    pub has_lookbehind: bool,
    pub has_cond: bool,
    pub has_keepout: bool,
    pub has_contg: bool,
    pub unsupported: Option<String>,
}

fn leaf(pat: &str, p: &mut RProg) -> R {
    let cfg = regex_automata::util::syntax::Config::new();
    match hirmodel::parse(pat, &cfg) {
        Ok(hp) => {
            for c in &hp.classes {
                if !p.classes.iter().any(|x| x.id == c.id) {
                    p.classes.push(c.clone());
                }
            }
            R::Leaf(hp)
        }
        Err(e) => {
            p.unsupported = Some(std::format!("leaf {} does not parse: {}", pat, e));
            R::Empty
        }
    }
}

fn conv(e: &Expr, p: &mut RProg) -> R {
    match e {
        Expr::Empty => R::Empty,
        Expr::Any { newline } => R::Any { nl: *newline },
        Expr::Assertion(a) => {
            if a.is_hard() {
                p.uses_word = true;
            }
            R::Assert(*a)
        }
        Expr::Literal { val, casei } => {
            if *casei {
                let mut s = String::from("(?i:");
                crate::push_quoted(&mut s, val);
                s.push(')');
                leaf(&s, p)
            } else {
                R::Lit(val.as_bytes().to_vec())
            }
        }
        Expr::Concat(v) => R::Concat(v.iter().map(|x| conv(x, p)).collect()),
        Expr::Alt(v) => R::Alt(v.iter().map(|x| conv(x, p)).collect()),
        Expr::Group(c) => {
            let g = p.ngroups;
            p.ngroups += 1;
            R::Group(g, Box::new(conv(c, p)))
        }
        Expr::LookAround(c, la) => {
            if matches!(la, LookAround::LookBehind | LookAround::LookBehindNeg) {
                p.has_lookbehind = true;
            }
            R::Look(Box::new(conv(c, p)), *la)
        }
        Expr::Repeat { child, lo, hi, greedy } => {
            R::Repeat { child: Box::new(conv(child, p)), lo: *lo, hi: *hi, greedy: *greedy }
        }
        Expr::Delegate { inner, casei, .. } => {
            if *casei {
                leaf(&std::format!("(?i:{})", inner), p)
            } else {
                leaf(inner, p)
            }
        }
        Expr::Backref(g) => R::Backref(*g),
        Expr::AtomicGroup(c) => R::Atomic(Box::new(conv(c, p))),
        Expr::KeepOut => {
            p.has_keepout = true;
            R::KeepOut
        }
        Expr::ContinueFromPreviousMatchEnd => {
            p.has_contg = true;
            R::ContG
        }
        Expr::BackrefExistsCondition(g) => R::BackrefExists(*g),
        Expr::Conditional { condition, true_branch, false_branch } => {
            p.has_cond = true;
            R::Cond {
                c: Box::new(conv(condition, p)),
                t: Box::new(conv(true_branch, p)),
                f: Box::new(conv(false_branch, p)),
            }
        }
        Expr::SubroutineCall(_) => {
            p.unsupported = Some("subroutine call".to_string());
            R::Empty
        }
    }
}

/// Build the reference program for the *raw* parsed expression (group 0 is implicit).
pub fn build(e: &Expr) -> RProg {
    let mut p = RProg {
        root: R::Empty,
        ngroups: 1,
        classes: Vec::new(),
        uses_word: false,
        has_f1: false,
        has_f1_lazy: false,
        has_lookbehind: false,
        has_cond: false,
        has_keepout: false,
        has_contg: false,
        unsupported: None,
    };
    let root = conv(e, &mut p);
    p.has_f1 = has_f1(&root);
    p.has_f1_lazy = has_f1_lazy(&root);
    p.root = root;
    if p.uses_word {
        let w = hirmodel::word_class();
        if !p.classes.iter().any(|x| x.id == w.id) {
            p.classes.push(w);
        }
    }
    p
}

fn h_nullable(h: &H) -> bool {
    match h {
        H::Empty | H::Look(_) => true,
        H::Lit(l) => l.is_empty(),
        H::Class(_) => false,
        H::Rep { min, sub, .. } => *min == 0 || h_nullable(sub),
        H::Cap { sub, .. } => h_nullable(sub),
        H::Concat(v) => v.iter().all(h_nullable),
        H::Alt(v) => v.iter().any(h_nullable),
    }
}

fn h_fixed_len(h: &H) -> Option<usize> {
    match h {
        H::Empty | H::Look(_) => Some(0),
        H::Lit(l) => core::str::from_utf8(l).ok().map(|s| s.chars().count()),
        H::Class(_) => Some(1),
        H::Rep { min, max, sub, .. } => {
            let l = h_fixed_len(sub)?;
            if l == 0 {
                Some(0)
            } else if Some(*min) == *max {
                Some(l * *min as usize)
            } else {
                None
            }
        }
        H::Cap { sub, .. } => h_fixed_len(sub),
        H::Concat(v) => {
            let mut s = 0;
            for x in v {
                s += h_fixed_len(x)?;
            }
            Some(s)
        }
        H::Alt(v) => {
            let l = h_fixed_len(&v[0])?;
            for x in &v[1..] {
                if h_fixed_len(x)? != l {
                    return None;
                }
            }
            Some(l)
        }
    }
}

/// Can the node match the empty string (structural, refsem's own)?
pub fn nullable(r: &R) -> bool {
    match r {
        R::Empty | R::Assert(_) | R::Look(..) | R::Backref(_) | R::KeepOut | R::ContG | R::BackrefExists(_) => true,
        R::Any { .. } => false,
        R::Lit(l) => l.is_empty(),
        R::Leaf(hp) => h_nullable(&hp.root),
        R::Concat(v) => v.iter().all(nullable),
        R::Alt(v) => v.iter().any(nullable),
        R::Group(_, c) | R::Atomic(c) => nullable(c),
        R::Repeat { child, lo, .. } => *lo == 0 || nullable(child),
        R::Cond { c, t, f } => (nullable(c) && nullable(t)) || nullable(f),
    }
}

/// Unbounded repeat over a body that can match empty (finding class F1).
pub fn has_f1(r: &R) -> bool {
    match r {
        R::Repeat { child, hi, .. } => (*hi == usize::MAX && nullable(child)) || has_f1(child),
        R::Concat(v) | R::Alt(v) => v.iter().any(has_f1),
        R::Group(_, c) | R::Atomic(c) | R::Look(c, _) => has_f1(c),
        R::Cond { c, t, f } => has_f1(c) || has_f1(t) || has_f1(f),
        _ => false,
    }
}

/// F1 sub-class in which even the overall span is known to differ between the reference rule
/// ("an optional iteration of an unbounded repeat must consume") and the engines (Perl-style
/// "stop after an empty iteration"): an unbounded repeat whose nullable body contains a lazy
/// repeat that can match empty, e.g. `(?:a*?)*`.
pub fn has_f1_lazy(r: &R) -> bool {
    fn lazy_nullable(r: &R) -> bool {
        match r {
            R::Repeat { child, lo, greedy, .. } => (!*greedy && (*lo == 0 || nullable(child))) || lazy_nullable(child),
            R::Concat(v) | R::Alt(v) => v.iter().any(lazy_nullable),
            R::Group(_, c) | R::Atomic(c) | R::Look(c, _) => lazy_nullable(c),
            R::Cond { c, t, f } => lazy_nullable(c) || lazy_nullable(t) || lazy_nullable(f),
            _ => false,
        }
    }
    match r {
        R::Repeat { child, hi, .. } => (*hi == usize::MAX && nullable(child) && lazy_nullable(child)) || has_f1_lazy(child),
        R::Concat(v) | R::Alt(v) => v.iter().any(has_f1_lazy),
        R::Group(_, c) | R::Atomic(c) | R::Look(c, _) => has_f1_lazy(c),
        R::Cond { c, t, f } => has_f1_lazy(c) || has_f1_lazy(t) || has_f1_lazy(f),
        _ => false,
    }
}

/// Length in characters if every match of the node has the same length (structural).
pub fn fixed_len(r: &R) -> Option<usize> {
    match r {
        R::Empty | R::Assert(_) | R::Look(..) | R::KeepOut | R::ContG | R::BackrefExists(_) => Some(0),
        R::Any { .. } => Some(1),
        R::Lit(l) => core::str::from_utf8(l).ok().map(|s| s.chars().count()),
        R::Leaf(hp) => h_fixed_len(&hp.root),
        R::Concat(v) => {
            let mut s = 0;
            for x in v {
                s += fixed_len(x)?;
            }
            Some(s)
        }
        R::Alt(v) => {
            let l = fixed_len(&v[0])?;
            for x in &v[1..] {
                if fixed_len(x)? != l {
                    return None;
                }
            }
            Some(l)
        }
        R::Group(_, c) | R::Atomic(c) => fixed_len(c),
        R::Repeat { child, lo, hi, .. } => {
            let l = fixed_len(child)?;
            if l == 0 {
                Some(0)
            } else if lo == hi {
                Some(l * lo)
            } else {
                None
            }
        }
        R::Backref(_) => None,
        R::Cond { c, t, f } => {
            let a = fixed_len(c)? + fixed_len(t)?;
            if a == fixed_len(f)? {
                Some(a)
            } else {
                None
            }
        }
    }
}

#[derive(Clone, Debug, PartialEq, Eq)]
pub struct St {
    pub caps: Vec<Option<(usize, usize)>>,
    pub keep: Option<usize>,
}

pub struct Ctx {
    pub pos: usize,
    pub skipped: bool,
    pub steps: Cell<u64>,
    pub step_cap: u64,
    pub aborted: Cell<bool>,
    pub lb_not_fixed: Cell<bool>,
}

type K<'a> = &'a mut dyn FnMut(usize, &St) -> bool;

fn assert_holds<T: Text + ?Sized>(a: Assertion, t: &T, i: usize) -> bool {
    match a {
        Assertion::StartText => look::is_start(t, i),
        Assertion::EndText => look::is_end(t, i),
        Assertion::StartLine { crlf: false } => look::is_start_lf(t, i),
        Assertion::StartLine { crlf: true } => look::is_start_crlf(t, i),
        Assertion::EndLine { crlf: false } => look::is_end_lf(t, i),
        Assertion::EndLine { crlf: true } => look::is_end_crlf(t, i),
        Assertion::LeftWordBoundary => {
            let (p, n) = look::word_sides(t, i);
            !p && n
        }
        Assertion::RightWordBoundary => {
            let (p, n) = look::word_sides(t, i);
            p && !n
        }
        Assertion::WordBoundary => {
            let (p, n) = look::word_sides(t, i);
            p != n
        }
        Assertion::NotWordBoundary => {
            let (p, n) = look::word_sides(t, i);
            p == n
        }
    }
}

fn go_back<T: Text + ?Sized>(t: &T, mut i: usize, n: usize) -> Option<usize> {
    for _ in 0..n {
        if i == 0 {
            return None;
        }
        i = crate::symtext::prev_boundary(t, i);
    }
    Some(i)
}

pub fn m<T: Text + ?Sized>(r: &R, cx: &Ctx, t: &T, i: usize, st: &St, k: K<'_>) -> bool {
    if cx.aborted.get() {
        return false;
    }
    let s = cx.steps.get() + 1;
    cx.steps.set(s);
    if s > cx.step_cap {
        cx.aborted.set(true);
        return false;
    }
    match r {
        R::Empty => k(i, st),
        R::Any { nl } => {
            if i < t.len() && (*nl || t.as_bytes()[i] != b'\n') {
                k(i + hirmodel::char_width(t, i), st)
            } else {
                false
            }
        }
        R::Assert(a) => assert_holds(*a, t, i) && k(i, st),
        R::Lit(l) => {
            let end = i + l.len();
            if end <= t.len() && t.as_bytes()[i..end] == l[..] {
                k(end, st)
            } else {
                false
            }
        }
        R::Leaf(hp) => hirmodel::match_all(hp, t, i, &mut |j| k(j, st)),
        R::Concat(v) => concat(v, cx, t, i, st, k),
        R::Alt(v) => {
            for a in v {
                if m(a, cx, t, i, st, k) {
                    return true;
                }
            }
            false
        }
        R::Group(g, c) => m(c, cx, t, i, st, &mut |j, s: &St| {
            let mut s2 = s.clone();
            s2.caps[*g] = Some((i, j));
            k(j, &s2)
        }),
        R::Look(c, la) => match la {
            LookAround::LookAhead => {
                // look-arounds are atomic (Perl/Oniguruma): the first way the body matches
                let mut first: Option<St> = None;
                m(c, cx, t, i, st, &mut |_j, s: &St| {
                    first = Some(s.clone());
                    true
                });
                if cx.aborted.get() {
                    return false;
                }
                match first {
                    Some(s) => k(i, &s),
                    None => false,
                }
            }
            LookAround::LookAheadNeg => {
                let found = m(c, cx, t, i, st, &mut |_j, _s: &St| true);
                if cx.aborted.get() {
                    return false;
                }
                !found && k(i, st)
            }
            LookAround::LookBehind | LookAround::LookBehindNeg => {
                let neg = *la == LookAround::LookBehindNeg;
                let single;
                let alts: &[R] = match &**c {
                    R::Alt(v) => &v[..],
                    other => {
                        single = core::slice::from_ref(other);
                        single
                    }
                };
                for a in alts {
                    let l = match fixed_len(a) {
                        Some(l) => l,
                        None => {
                            cx.lb_not_fixed.set(true);
                            cx.aborted.set(true);
                            return false;
                        }
                    };
                    let start = match go_back(t, i, l) {
                        Some(s) => s,
                        None => continue,
                    };
                    if neg {
                        let found = m(a, cx, t, start, st, &mut |j, _s: &St| j == i);
                        if cx.aborted.get() || found {
                            return false;
                        }
                    } else {
                        // atomic: the first alternative (and the first way) that ends at i
                        let mut first: Option<St> = None;
                        m(a, cx, t, start, st, &mut |j, s: &St| {
                            if j == i {
                                first = Some(s.clone());
                                true
                            } else {
                                false
                            }
                        });
                        if cx.aborted.get() {
                            return false;
                        }
                        if let Some(s) = first {
                            return k(i, &s);
                        }
                    }
                }
                if neg {
                    k(i, st)
                } else {
                    false
                }
            }
        },
        R::Repeat { child, lo, hi, greedy } => rep(child, *lo, *hi, *greedy, 0, cx, t, i, st, k),
        R::Backref(g) => match st.caps.get(*g).cloned().flatten() {
            None => false,
            Some((lo, hi)) => {
                let end = i + (hi - lo);
                if end <= t.len() && t.as_bytes()[i..end] == t.as_bytes()[lo..hi] {
                    k(end, st)
                } else {
                    false
                }
            }
        },
        R::Atomic(c) => {
            let mut first: Option<(usize, St)> = None;
            m(c, cx, t, i, st, &mut |j, s: &St| {
                first = Some((j, s.clone()));
                true
            });
            if cx.aborted.get() {
                return false;
            }
            match first {
                Some((j, s)) => k(j, &s),
                None => false,
            }
        }
        R::KeepOut => {
            let mut s2 = st.clone();
            s2.keep = Some(i);
            k(i, &s2)
        }
        R::ContG => i == cx.pos && !cx.skipped && k(i, st),
        R::BackrefExists(g) => st.caps.get(*g).cloned().flatten().is_some() && k(i, st),
        R::Cond { c, t: tb, f } => {
            let mut first: Option<(usize, St)> = None;
            m(c, cx, t, i, st, &mut |j, s: &St| {
                first = Some((j, s.clone()));
                true
            });
            if cx.aborted.get() {
                return false;
            }
            match first {
                Some((j, s)) => m(tb, cx, t, j, &s, k),
                None => m(f, cx, t, i, st, k),
            }
        }
    }
}

fn concat<T: Text + ?Sized>(v: &[R], cx: &Ctx, t: &T, i: usize, st: &St, k: K<'_>) -> bool {
    if v.is_empty() {
        return k(i, st);
    }
    m(&v[0], cx, t, i, st, &mut |j, s: &St| concat(&v[1..], cx, t, j, s, k))
}

fn rep<T: Text + ?Sized>(
    child: &R,
    lo: usize,
    hi: usize,
    greedy: bool,
    n: usize,
    cx: &Ctx,
    t: &T,
    i: usize,
    st: &St,
    k: K<'_>,
) -> bool {
    if n < lo {
        // mandatory iteration (may be empty)
        return m(child, cx, t, i, st, &mut |j, s: &St| rep(child, lo, hi, greedy, n + 1, cx, t, j, s, k));
    }
    if greedy {
        if n < hi
            && m(child, cx, t, i, st, &mut |j, s: &St| {
                // an optional iteration of an unbounded repeat must consume something
                if hi == usize::MAX && j == i {
                    false
                } else {
                    rep(child, lo, hi, greedy, n + 1, cx, t, j, s, k)
                }
            })
        {
            return true;
        }
        k(i, st)
    } else {
        if k(i, st) {
            return true;
        }
        n < hi
            && m(child, cx, t, i, st, &mut |j, s: &St| {
                if hi == usize::MAX && j == i {
                    false
                } else {
                    rep(child, lo, hi, greedy, n + 1, cx, t, j, s, k)
                }
            })
    }
}

#[derive(Clone, Debug, PartialEq, Eq)]
pub enum Outcome {
    /// group spans, index 0 = overall match
    Match(Vec<Option<(usize, usize)>>),
    NoMatch,
    /// step cap reached
    Aborted,
    /// a look-behind alternative has no structurally fixed length
    LookBehindNotFixed,
}

pub struct SearchResult {
    pub outcome: Outcome,
    pub steps: u64,
}

/// Search from `pos`: first start offset (char boundaries, in order) at which the
/// expression matches, with the first match in priority order.
pub fn search<T: Text + ?Sized>(p: &RProg, t: &T, pos: usize, skipped: bool, step_cap: u64) -> SearchResult {
    let cx = Ctx {
        pos,
        skipped,
        steps: Cell::new(0),
        step_cap,
        aborted: Cell::new(false),
        lb_not_fixed: Cell::new(false),
    };
    let mut start = pos;
    loop {
        let st0 = St { caps: vec![None; p.ngroups], keep: None };
        let mut res: Option<(usize, St)> = None;
        let found = m(&p.root, &cx, t, start, &st0, &mut |j, s: &St| {
            res = Some((j, s.clone()));
            true
        });
        if cx.lb_not_fixed.get() {
            return SearchResult { outcome: Outcome::LookBehindNotFixed, steps: cx.steps.get() };
        }
        if cx.aborted.get() {
            return SearchResult { outcome: Outcome::Aborted, steps: cx.steps.get() };
        }
        if found {
            let (end, s) = res.unwrap();
            let mut caps = s.caps.clone();
            // \K sets the reported start; it is capped to <= end and to >= the offset the
            // search started from (a search from pos never reports a match before pos)
            let mut st = s.keep.unwrap_or(start);
            if st > end {
                st = end;
            }
            if st < pos {
                st = pos;
            }
            caps[0] = Some((st, end));
            return SearchResult { outcome: Outcome::Match(caps), steps: cx.steps.get() };
        }
        if start >= t.len() {
            return SearchResult { outcome: Outcome::NoMatch, steps: cx.steps.get() };
        }
        start += hirmodel::char_width(t, start);
    }
}

/// All (start, end) pairs, in characters, that `r` can match from offset `from`
/// (used for the size-fact soundness check C13a): calls `f(end)` for every way.
pub fn all_ends<T: Text + ?Sized>(r: &R, ngroups: usize, t: &T, from: usize, step_cap: u64, f: &mut dyn FnMut(usize)) -> bool {
    let cx = Ctx {
        pos: from,
        skipped: false,
        steps: Cell::new(0),
        step_cap,
        aborted: Cell::new(false),
        lb_not_fixed: Cell::new(false),
    };
    let st0 = St { caps: vec![None; ngroups], keep: None };
    m(r, &cx, t, from, &st0, &mut |j, _s: &St| {
        f(j);
        false
    });
    !cx.aborted.get()
}
