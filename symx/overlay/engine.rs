//! Decision engine: one live `z3 -in` per worker thread, DFS over decision trails,
//! re-execution of the code under test once per path.
//!
//! This file is part of /verif (overlay), not of the repository.

use std::cell::RefCell;
use std::collections::hash_map::DefaultHasher;
use std::collections::HashMap;
use std::hash::{Hash, Hasher};
use std::io::{BufRead, BufReader, Write};
use std::process::{Child, ChildStdin, ChildStdout, Command, Stdio};
use std::string::String;
use std::time::Instant;
use std::vec::Vec;

use crate::symtext::{ByteLike, Cls, SymByte, SymStr};

#[derive(Clone, Debug)]
enum Kind {
    Forced,
    Branch { pending: bool, term: String },
}

#[derive(Clone, Debug)]
struct Entry {
    hash: u64,
    outcome: bool,
    kind: Kind,
}

#[derive(Default, Clone, Debug)]
pub struct Stats {
    pub queries: u64,
    pub solver_s: f64,
    pub paths: u64,
    pub decides: u64,
    pub forced: u64,
    pub branches: u64,
    pub closing_queries: u64,
    pub closing_ok: u64,
    pub models: u64,
}

pub struct Engine {
    child: Child,
    stdin: ChildStdin,
    stdout: BufReader<ChildStdout>,
    trail: Vec<Entry>,
    pos: usize,
    memo: HashMap<String, bool>,
    pub active: bool,
    nvars: usize,
    defined_cls: Vec<bool>,
    pub stats: Stats,
    pub decide_cap: u64,
    decides_this_path: u64,
    pub error: Option<String>,
    pub log: Option<std::fs::File>,
    /// text of every class definition sent so far / of the current session's declarations
    cls_text: String,
    session_text: String,
    explorations: u64,
    rep_cache: Option<(usize, Vec<u8>)>,
    rep_cache_path: u64,
    /// queries answered by the current solver process (z3 4.8.12 grows by about 5 MB/s in a
    /// long push/pop session: the process is replaced every RESPAWN_AFTER queries)
    since_spawn: u64,
    pub respawns: u64,
}

const RESPAWN_AFTER: u64 = 120_000;

thread_local! {
    pub static ENGINE: RefCell<Option<Engine>> = RefCell::new(None);
}

fn hash_str(s: &str) -> u64 {
    let mut h = DefaultHasher::new();
    s.hash(&mut h);
    h.finish()
}

pub const CAP_PANIC: &str = "SYMX-CAP";
pub const ERR_PANIC: &str = "SYMX-SOLVER-ERROR";

impl Engine {
    pub fn start() -> Engine {
        let solver = std::env::var("SYMX_Z3").unwrap_or_else(|_| "z3".to_string());
        let mut child = Command::new(solver)
            .arg("-in")
            .stdin(Stdio::piped())
            .stdout(Stdio::piped())
            .stderr(Stdio::null())
            .spawn()
            .expect("spawn z3");
        let stdin = child.stdin.take().unwrap();
        let stdout = BufReader::new(child.stdout.take().unwrap());
        let mut e = Engine {
            child,
            stdin,
            stdout,
            trail: Vec::new(),
            pos: 0,
            memo: HashMap::new(),
            active: false,
            nvars: 0,
            defined_cls: Vec::new(),
            stats: Stats::default(),
            decide_cap: 200_000,
            decides_this_path: 0,
            error: None,
            log: None,
            cls_text: String::new(),
            session_text: String::new(),
            explorations: 0,
            rep_cache: None,
            rep_cache_path: u64::MAX,
            since_spawn: 0,
            respawns: 0,
        };
        e.send("(set-option :print-success false)\n(set-logic QF_BV)\n");
        e
    }

    fn send(&mut self, s: &str) {
        if let Some(l) = self.log.as_mut() {
            let _ = l.write_all(s.as_bytes());
        }
        self.stdin.write_all(s.as_bytes()).expect("z3 stdin");
    }

    fn read_line(&mut self) -> String {
        let mut line = String::new();
        self.stdin.flush().expect("flush");
        let n = self.stdout.read_line(&mut line).expect("z3 stdout");
        if n == 0 {
            self.error = Some("z3 closed its output".to_string());
            panic!("{}", ERR_PANIC);
        }
        if line.contains("(error") {
            self.error = Some(line.clone());
            panic!("{}", ERR_PANIC);
        }
        line
    }

    fn check_sat(&mut self) -> bool {
        let t0 = Instant::now();
        self.send("(check-sat)\n");
        let l = self.read_line();
        self.stats.queries += 1;
        self.since_spawn += 1;
        self.stats.solver_s += t0.elapsed().as_secs_f64();
        match l.trim() {
            "sat" => true,
            "unsat" => false,
            other => {
                self.error = Some(format!("unexpected solver answer: {}", other));
                panic!("{}", ERR_PANIC);
            }
        }
    }

    fn feasible(&mut self, term: &str, polarity: bool) -> bool {
        if polarity {
            self.send(&format!("(push)\n(assert {})\n", term));
        } else {
            self.send(&format!("(push)\n(assert (not {}))\n", term));
        }
        let r = self.check_sat();
        self.send("(pop)\n");
        r
    }

    fn define_cls(&mut self, cls: &Cls) {
        while self.defined_cls.len() <= cls.id {
            self.defined_cls.push(false);
        }
        if self.defined_cls[cls.id] {
            return;
        }
        // one function per UTF-8 width: only the ranges a character of that width can hit
        let bounds: [(u32, u32); 4] = [(0, 0x7f), (0x80, 0x7ff), (0x800, 0xffff), (0x10000, 0x10ffff)];
        for (wi, &(blo, bhi)) in bounds.iter().enumerate() {
            let mut s = format!("(define-fun cls{}_{} ((c (_ BitVec 24))) Bool (or false", cls.id, wi + 1);
            for &(lo, hi) in &cls.ranges {
                let lo = lo.max(blo);
                let hi = hi.min(bhi);
                if lo > hi {
                    continue;
                }
                if lo == blo && hi == bhi {
                    s.push_str(" true");
                } else if lo == hi {
                    s.push_str(&format!(" (= c #x{:06x})", lo));
                } else {
                    s.push_str(&format!(" (and (bvule #x{:06x} c) (bvule c #x{:06x}))", lo, hi));
                }
            }
            s.push_str("))\n");
            self.send(&s);
            self.cls_text.push_str(&s);
        }
        self.defined_cls[cls.id] = true;
    }

    /// Open a session: `n` fresh byte variables, constrained to the UTF-8 layout
    /// `widths` (char widths, sum == n).  Must be called at solver level 0.
    fn respawn(&mut self) {
        let solver = std::env::var("SYMX_Z3").unwrap_or_else(|_| "z3".to_string());
        let _ = self.stdin.write_all(b"(exit)\n");
        let _ = self.child.kill();
        let _ = self.child.wait();
        let mut child = Command::new(solver)
            .arg("-in")
            .stdin(Stdio::piped())
            .stdout(Stdio::piped())
            .stderr(Stdio::null())
            .spawn()
            .expect("spawn z3");
        self.stdin = child.stdin.take().unwrap();
        self.stdout = BufReader::new(child.stdout.take().unwrap());
        self.child = child;
        self.defined_cls.clear();
        self.cls_text.clear();
        self.since_spawn = 0;
        self.respawns += 1;
        self.send("(set-option :print-success false)\n(set-logic QF_BV)\n");
    }

    fn open(&mut self, widths: &[usize], classes: &[Cls], extra: &[String]) {
        assert!(!self.active);
        if self.since_spawn > RESPAWN_AFTER {
            self.respawn();
        }
        for c in classes {
            self.define_cls(c);
        }
        let n: usize = widths.iter().sum();
        self.nvars = n;
        let mut s = String::from("(push)\n");
        for i in 0..n {
            s.push_str(&format!("(declare-const b{} (_ BitVec 8))\n", i));
        }
        let mut i = 0;
        for &w in widths {
            s.push_str(&layout_constraint(i, w));
            i += w;
        }
        for x in extra {
            s.push_str(&format!("(assert {})\n", x));
        }
        self.send(&s);
        self.session_text = s.replace("(push)\n", "");
        self.rep_cache = None;
        self.explorations += 1;
        self.trail.clear();
        self.pos = 0;
        self.memo.clear();
        self.active = true;
    }

    fn close(&mut self) {
        // pop every branch level and the session level
        let mut s = String::new();
        for e in &self.trail {
            if let Kind::Branch { .. } = e.kind {
                s.push_str("(pop)\n");
            }
        }
        s.push_str("(pop)\n");
        self.send(&s);
        self.trail.clear();
        self.active = false;
    }

    fn decide(&mut self, term: String) -> bool {
        self.stats.decides += 1;
        if let Some(&v) = self.memo.get(&term) {
            return v;
        }
        self.decides_this_path += 1;
        if self.decides_this_path > self.decide_cap {
            panic!("{}", CAP_PANIC);
        }
        let h = hash_str(&term);
        if self.pos < self.trail.len() {
            let e = &self.trail[self.pos];
            if e.hash != h {
                self.error = Some(format!("non-deterministic re-execution at decision {}: {}", self.pos, term));
                panic!("{}", ERR_PANIC);
            }
            let v = e.outcome;
            self.pos += 1;
            self.memo.insert(term, v);
            return v;
        }
        let can_true = self.feasible(&term, true);
        let (outcome, kind) = if !can_true {
            self.stats.forced += 1;
            (false, Kind::Forced)
        } else if !self.feasible(&term, false) {
            self.stats.forced += 1;
            (true, Kind::Forced)
        } else {
            self.stats.branches += 1;
            self.send(&format!("(push)\n(assert {})\n", term));
            (true, Kind::Branch { pending: true, term: term.clone() })
        };
        self.trail.push(Entry { hash: h, outcome, kind });
        self.pos += 1;
        self.memo.insert(term, outcome);
        outcome
    }

    /// Path condition of the current trail: the branch literals.
    fn path_condition(&self) -> Vec<String> {
        let mut v = Vec::new();
        for e in &self.trail[..self.pos.min(self.trail.len())] {
            if let Kind::Branch { term, .. } = &e.kind {
                if e.outcome {
                    v.push(term.clone());
                } else {
                    v.push(format!("(not {})", term));
                }
            }
        }
        v
    }

    /// A concrete text satisfying the current path condition.
    fn model(&mut self) -> Vec<u8> {
        if self.nvars == 0 {
            return Vec::new();
        }
        let sat = self.check_sat();
        if !sat {
            self.error = Some("path condition unsatisfiable at path end".to_string());
            panic!("{}", ERR_PANIC);
        }
        let mut s = String::from("(get-value (");
        for i in 0..self.nvars {
            s.push_str(&format!("b{} ", i));
        }
        s.push_str("))\n");
        self.send(&s);
        // read until parentheses balance
        let mut txt = String::new();
        let mut depth: i64 = 0;
        loop {
            let l = self.read_line();
            for ch in l.chars() {
                if ch == '(' {
                    depth += 1;
                } else if ch == ')' {
                    depth -= 1;
                }
            }
            txt.push_str(&l);
            if depth <= 0 {
                break;
            }
        }
        self.stats.models += 1;
        let mut out = vec![0u8; self.nvars];
        // entries look like (b3 #x61)
        let mut rest = txt.as_str();
        while let Some(p) = rest.find("(b") {
            let r = &rest[p + 2..];
            let sp = r.find(' ').unwrap();
            let idx: usize = r[..sp].parse().unwrap();
            let r2 = r[sp + 1..].trim_start();
            let val = if r2.starts_with("#x") {
                u8::from_str_radix(&r2[2..4], 16).unwrap()
            } else if r2.starts_with("#b") {
                u8::from_str_radix(&r2[2..10], 2).unwrap()
            } else {
                self.error = Some(format!("cannot parse model: {}", txt));
                panic!("{}", ERR_PANIC);
            };
            out[idx] = val;
            rest = &r[sp..];
        }
        out
    }

    /// Advance to the next unexplored path.  Returns false when exploration is complete.
    fn backtrack(&mut self) -> bool {
        // anything beyond pos was not reached in this run (cannot happen: trail grows only by decide)
        loop {
            match self.trail.pop() {
                None => return false,
                Some(e) => match e.kind {
                    Kind::Forced => {}
                    Kind::Branch { pending, term } => {
                        self.send("(pop)\n");
                        if pending {
                            self.send(&format!("(push)\n(assert (not {}))\n", term));
                            self.trail.push(Entry {
                                hash: e.hash,
                                outcome: !e.outcome,
                                kind: Kind::Branch { pending: false, term },
                            });
                            return true;
                        }
                    }
                },
            }
        }
    }
}

impl Drop for Engine {
    fn drop(&mut self) {
        let _ = self.stdin.write_all(b"(exit)\n");
        let _ = self.child.kill();
        let _ = self.child.wait();
    }
}

pub fn layout_constraint(i: usize, w: usize) -> String {
    let b = |k: usize| format!("b{}", i + k);
    let rng = |v: &str, lo: u8, hi: u8| format!("(and (bvule #x{:02x} {}) (bvule {} #x{:02x}))", lo, v, v, hi);
    let cont = |v: &str| rng(v, 0x80, 0xbf);
    match w {
        1 => format!("(assert (bvult {} #x80))\n", b(0)),
        2 => format!("(assert {})\n(assert {})\n", rng(&b(0), 0xc2, 0xdf), cont(&b(1))),
        3 => format!(
            "(assert (or (and (= {b0} #xe0) {a}) (and {r1} {c}) (and (= {b0} #xed) {d}) (and {r2} {c})))\n(assert {c2})\n",
            b0 = b(0),
            a = rng(&b(1), 0xa0, 0xbf),
            r1 = rng(&b(0), 0xe1, 0xec),
            c = cont(&b(1)),
            d = rng(&b(1), 0x80, 0x9f),
            r2 = rng(&b(0), 0xee, 0xef),
            c2 = cont(&b(2))
        ),
        4 => format!(
            "(assert (or (and (= {b0} #xf0) {a}) (and {r1} {c}) (and (= {b0} #xf4) {d})))\n(assert {c2})\n(assert {c3})\n",
            b0 = b(0),
            a = rng(&b(1), 0x90, 0xbf),
            r1 = rng(&b(0), 0xf1, 0xf3),
            c = cont(&b(1)),
            d = rng(&b(1), 0x80, 0x8f),
            c2 = cont(&b(2)),
            c3 = cont(&b(3))
        ),
        _ => panic!("bad width"),
    }
}

/// Called by the symbolic byte operations.
pub fn decide(term: String) -> bool {
    ENGINE.with(|e| {
        let mut g = e.borrow_mut();
        let eng = g.as_mut().expect("symbolic operation outside an engine session");
        eng.decide(term)
    })
}

/// Smallest value the 8-bit term can take under the current path condition (binary search
/// with feasibility queries; deterministic, records nothing on the trail).
pub fn min_value(term: &str) -> u8 {
    ENGINE.with(|e| {
        let mut g = e.borrow_mut();
        let eng = g.as_mut().expect("symbolic operation outside an engine session");
        let (mut lo, mut hi) = (0u16, 255u16);
        while lo < hi {
            let mid = (lo + hi) / 2;
            if eng.feasible(&format!("(bvule {} #x{:02x})", term, mid), true) {
                hi = mid;
            } else {
                lo = mid + 1;
            }
        }
        lo as u8
    })
}

/// Lexicographically smallest assignment of the given bytes under the current path condition
/// (deterministic; nothing is recorded on the trail).  Cached until the next *branch*
/// decision (forced decisions do not change the feasible set); within a path constraints only
/// grow, so a previous minimum that is still feasible is still the minimum.
pub fn min_model(terms: &[Result<u8, String>]) -> Vec<u8> {
    ENGINE.with(|e| {
        let mut g = e.borrow_mut();
        let eng = g.as_mut().expect("symbolic operation outside an engine session");
        let upto = eng.pos.min(eng.trail.len());
        let key = eng.trail[..upto].iter().filter(|x| matches!(x.kind, Kind::Branch { .. })).count();
        let same_path = eng.rep_cache_path == eng.stats.paths;
        let prev: Option<Vec<u8>> = match &eng.rep_cache {
            Some((k, v)) if v.len() == terms.len() => {
                if *k == key && same_path {
                    return v.clone();
                }
                Some(v.clone())
            }
            _ => None,
        };
        eng.rep_cache_path = eng.stats.paths;
        let mut out = Vec::new();
        let mut pushed = 0;
        // the previous minimum bounds byte i from below only while bytes 0..i kept their
        // values (the minimum is lexicographic: a later byte can go down when an earlier one
        // went up)
        let mut prefix_same = true;
        for (i, t) in terms.iter().enumerate() {
            match t {
                Ok(v) => out.push(*v),
                Err(term) => {
                    let usable = prev.is_some() && prefix_same;
                    let mut lo: u16 = match &prev {
                        Some(p) if usable => p[i] as u16,
                        _ => 0,
                    };
                    // a previous minimum (of this path: nothing smaller can have become feasible;
                    // of another path: checked) is kept if it is feasible and nothing below it is
                    let mut keep = usable && eng.feasible(&format!("(= {} #x{:02x})", term, lo), true);
                    if keep && !same_path && lo > 0 && eng.feasible(&format!("(bvult {} #x{:02x})", term, lo), true) {
                        keep = false;
                        lo = 0;
                    } else if !keep && !same_path {
                        lo = 0;
                    }
                    if !keep {
                        let mut hi = 255u16;
                        while lo < hi {
                            let mid = (lo + hi) / 2;
                            if eng.feasible(&format!("(and (bvuge {} #x{:02x}) (bvule {} #x{:02x}))", term, lo, term, mid), true) {
                                hi = mid;
                            } else {
                                lo = mid + 1;
                            }
                        }
                    }
                    eng.send(&format!("(push)\n(assert (= {} #x{:02x}))\n", term, lo));
                    pushed += 1;
                    if let Some(p) = &prev {
                        if p[i] as u16 != lo {
                            prefix_same = false;
                        }
                    }
                    out.push(lo as u8);
                }
            }
        }
        for _ in 0..pushed {
            eng.send("(pop)\n");
        }
        eng.rep_cache = Some((key, out.clone()));
        out
    })
}

/// `min_model` for an arbitrary list of terms (the cache of `min_model` assumes that the
/// same list -- the whole text -- is asked for every time).
pub fn min_model_fresh(terms: &[Result<u8, String>]) -> Vec<u8> {
    ENGINE.with(|e| {
        if let Some(eng) = e.borrow_mut().as_mut() {
            eng.rep_cache = None;
        }
    });
    let v = min_model(terms);
    ENGINE.with(|e| {
        if let Some(eng) = e.borrow_mut().as_mut() {
            eng.rep_cache = None;
        }
    });
    v
}

/// Char boundary test on a symbolic text (forced by the layout constraints).
pub fn is_boundary(s: &SymStr, ix: usize) -> bool {
    let raw = s.raw();
    ix == 0 || ix == raw.len() || raw[ix].ge_i8(-0x40)
}

/// Result of one explored path.
pub struct PathResult<R> {
    pub value: Result<R, String>, // Err = panic message
    pub pc: Vec<String>,
    pub model: Vec<u8>,
}

pub struct Exploration<R> {
    pub paths: Vec<PathResult<R>>,
    pub complete: bool,
    pub closing_checked: bool,
}

thread_local! {
    pub static LAST_PANIC: RefCell<Option<String>> = RefCell::new(None);
}

pub fn install_panic_hook() {
    std::panic::set_hook(Box::new(|info| {
        let msg = if let Some(s) = info.payload().downcast_ref::<&str>() {
            s.to_string()
        } else if let Some(s) = info.payload().downcast_ref::<String>() {
            s.clone()
        } else {
            "panic".to_string()
        };
        let loc = info.location().map(|l| format!("{}:{}", l.file(), l.line())).unwrap_or_default();
        LAST_PANIC.with(|p| *p.borrow_mut() = Some(format!("{} at {}", msg, loc)));
    }));
}

/// Explore all feasible paths of `f` over a symbolic text with the given layout.
/// `f` receives the symbolic text; it is re-executed once per path.
pub fn explore<R, F>(widths: &[usize], classes: &[Cls], extra: &[String], max_paths: usize, closing: bool, mut f: F) -> Exploration<R>
where
    F: FnMut(&SymStr) -> R,
{
    let n: usize = widths.iter().sum();
    let bytes: Vec<SymByte> = (0..n).map(SymByte::var).collect();
    let text = SymStr::new(&bytes);
    ENGINE.with(|e| {
        let mut g = e.borrow_mut();
        if g.is_none() {
            *g = Some(Engine::start());
        }
        g.as_mut().unwrap().open(widths, classes, extra);
    });
    let mut paths = Vec::new();
    let mut complete = true;
    loop {
        ENGINE.with(|e| {
            let mut g = e.borrow_mut();
            let eng = g.as_mut().unwrap();
            eng.pos = 0;
            eng.memo.clear();
            eng.decides_this_path = 0;
            eng.stats.paths += 1;
        });
        LAST_PANIC.with(|p| *p.borrow_mut() = None);
        let r = std::panic::catch_unwind(std::panic::AssertUnwindSafe(|| f(text)));
        let value = match r {
            Ok(v) => Ok(v),
            Err(_) => {
                let m = LAST_PANIC.with(|p| p.borrow_mut().take()).unwrap_or_else(|| "panic".to_string());
                Err(m)
            }
        };
        let solver_err = ENGINE.with(|e| e.borrow().as_ref().unwrap().error.clone());
        if let Some(err) = solver_err {
            // the solver session is unusable: tear it down
            ENGINE.with(|e| *e.borrow_mut() = None);
            paths.push(PathResult { value: Err(format!("{}: {}", ERR_PANIC, err)), pc: Vec::new(), model: Vec::new() });
            return Exploration { paths, complete: false, closing_checked: false };
        }
        let (pc, model, more) = ENGINE.with(|e| {
            let mut g = e.borrow_mut();
            let eng = g.as_mut().unwrap();
            // a run that panicked may have stopped before consuming the whole trail
            if eng.pos < eng.trail.len() {
                // drop unreached suffix (can only happen when a cap/panic cut the run short
                // during replay of a prefix, which is deterministic -> cannot happen)
                eng.error = Some("run ended before its recorded prefix".to_string());
            }
            let pc = eng.path_condition();
            let model = eng.model();
            let more = eng.backtrack();
            (pc, model, more)
        });
        paths.push(PathResult { value, pc, model });
        if !more {
            break;
        }
        if paths.len() >= max_paths {
            complete = false;
            break;
        }
    }
    // closing coverage obligation: the explored path conditions cover the layout
    let mut closing_checked = false;
    ENGINE.with(|e| {
        let mut g = e.borrow_mut();
        let eng = g.as_mut().unwrap();
        if complete && closing {
            // after a complete DFS the trail is empty: we are at session level
            let mut s = String::from("(push)\n(assert (not (or false");
            for p in &paths {
                if p.pc.is_empty() {
                    s.push_str(" true");
                } else {
                    s.push_str(&format!(" (and {})", p.pc.join(" ")));
                }
            }
            s.push_str(")))\n");
            // every 400th closing query is also written out as a stand-alone script, so that
            // a second solver (cvc5) can re-decide it
            if let Ok(dir) = std::env::var("SYMX_DUMP_DIR") {
                if eng.explorations % 400 == 7 && s.len() < 2_000_000 {
                    let name = format!("{}/closing_{:?}_{}.smt2", dir, std::thread::current().id(), eng.explorations).replace("ThreadId(", "t").replace(")", "");
                    let body = format!("(set-logic QF_BV)\n{}{}{}(check-sat)\n", eng.cls_text, eng.session_text, s.replace("(push)\n", ""));
                    let _ = std::fs::write(name, body);
                }
            }
            eng.send(&s);
            let sat = eng.check_sat();
            eng.send("(pop)\n");
            eng.stats.closing_queries += 1;
            if !sat {
                eng.stats.closing_ok += 1;
                closing_checked = true;
            } else {
                eng.error = Some("closing coverage query satisfiable: explored paths do not cover the layout".to_string());
            }
        }
        eng.close();
    });
    Exploration { paths, complete, closing_checked }
}

pub fn take_stats() -> Stats {
    ENGINE.with(|e| {
        let mut g = e.borrow_mut();
        match g.as_mut() {
            Some(eng) => {
                let s = eng.stats.clone();
                eng.stats = Stats::default();
                s
            }
            None => Stats::default(),
        }
    })
}

pub fn take_error() -> Option<String> {
    ENGINE.with(|e| {
        let mut g = e.borrow_mut();
        match g.as_mut() {
            Some(eng) => eng.error.take(),
            None => None,
        }
    })
}

pub fn shutdown() {
    ENGINE.with(|e| *e.borrow_mut() = None);
}

/// All UTF-8 layouts (sequences of char widths) with total length <= n.
pub fn layouts(n: usize) -> Vec<Vec<usize>> {
    fn go(rem: usize, cur: &mut Vec<usize>, out: &mut Vec<Vec<usize>>) {
        out.push(cur.clone());
        for w in 1..=4 {
            if w <= rem {
                cur.push(w);
                go(rem - w, cur, out);
                cur.pop();
            }
        }
    }
    let mut out = Vec::new();
    go(n, &mut Vec::new(), &mut out);
    out.sort_by_key(|l| (l.iter().sum::<usize>(), l.clone()));
    out
}
