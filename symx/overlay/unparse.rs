//! Expr -> pattern string (fancy-regex syntax), with spelling styles, plus the
//! tree transformations used by C03 (inject `(?=)`) and C19 (respellings).
//! Every produced string goes back through the repository's real parser; a
//! round-trip check (`parse(unparse(e)) == e`) guards each use.
//!
//! This file is part of /verif (overlay), not of the repository.

use std::boxed::Box;
use std::string::String;
use std::vec::Vec;

use crate::{Assertion, Expr, LookAround};

#[derive(Clone, Debug, Default)]
pub struct Style {
    /// print AtomicGroup(Repeat) as `x*+`
    pub possessive_sugar: bool,
    /// give every group a name and refer to groups by name
    pub named: bool,
    /// 0: `\N`  1: `\k<N>`  2: relative `\k<-n>` (only where resolvable)
    pub backref: u8,
    /// `^`/`$` instead of `\A`/`\z`
    pub caret_dollar: bool,
    /// literals as `\x{..}` escapes
    pub hex: bool,
    /// free-spacing mode: `(?x)` prefix, blanks and comments between tokens
    pub freespace: bool,
    /// what is put between tokens in free-spacing mode: 0 one blank, 1 a `#` comment, a
    /// newline and a blank, 2 a tab, two consecutive comment lines and blanks
    pub fs_kind: u8,
    /// also put it after `(`, `|`, before `)`, `|`, around quantifiers and at both ends
    pub fs_everywhere: bool,
    /// `(?#...)` comments between tokens
    pub comments: bool,
    /// case-insensitive literals as `(?i)a(?-i)` inside a group instead of `(?i:a)`
    pub inline_flags: bool,
}

struct Up<'a> {
    st: &'a Style,
    group: usize,
    /// groups opened so far (for relative backrefs)
    out: String,
    ok: bool,
}

fn is_atomic_syntax(e: &Expr) -> bool {
    match e {
        Expr::Literal { val, casei } => val.chars().count() == 1 && !*casei,
        Expr::Any { newline } => !*newline,
        Expr::Group(_) | Expr::AtomicGroup(_) | Expr::Backref(_) | Expr::Conditional { .. } | Expr::BackrefExistsCondition(_) => true,
        Expr::Delegate { casei, inner, .. } => !*casei && inner != "\n*$",
        _ => false,
    }
}

impl<'a> Up<'a> {
    fn ws(&mut self) {
        match self.st.fs_kind {
            0 => self.out.push(' '),
            1 => self.out.push_str(" # c\n "),
            _ => self.out.push_str("\t#a\n#b c\n  "),
        }
    }

    /// optional blank at a place where only `fs_everywhere` puts one
    fn ws_opt(&mut self) {
        if self.st.freespace && self.st.fs_everywhere {
            self.ws();
        }
    }

    fn sep(&mut self) {
        if self.st.freespace {
            self.ws();
        }
        if self.st.comments {
            self.out.push_str("(?#c)");
        }
    }

    fn lit(&mut self, val: &str) {
        for c in val.chars() {
            if self.st.hex {
                self.out.push_str(&std::format!("\\x{{{:x}}}", c as u32));
            } else if self.st.freespace && (c == ' ' || c == '\n' || c == '\t' || c == '\r') {
                match c {
                    ' ' => self.out.push_str("\\ "),
                    '\n' => self.out.push_str("\\n"),
                    '\t' => self.out.push_str("\\t"),
                    _ => self.out.push_str("\\r"),
                }
            } else if c == '\n' {
                self.out.push_str("\\n");
            } else {
                let mut s = String::new();
                s.push(c);
                crate::push_quoted(&mut self.out, &s);
            }
        }
    }

    fn grouped(&mut self, e: &Expr) {
        self.out.push_str("(?:");
        self.ws_opt();
        self.expr(e, 0);
        self.ws_opt();
        self.out.push(')');
    }

    /// prec: 0 = alternation allowed, 1 = inside concatenation, 2 = operand of a quantifier
    fn expr(&mut self, e: &Expr, prec: u8) {
        match e {
            Expr::Empty => {}
            Expr::Any { newline } => self.out.push_str(if *newline { "(?s:.)" } else { "." }),
            Expr::Assertion(a) => {
                let s = match a {
                    Assertion::StartText => {
                        if self.st.caret_dollar {
                            "^"
                        } else {
                            "\\A"
                        }
                    }
                    Assertion::EndText => {
                        if self.st.caret_dollar {
                            "$"
                        } else {
                            "\\z"
                        }
                    }
                    Assertion::StartLine { crlf: false } => "(?m:^)",
                    Assertion::EndLine { crlf: false } => "(?m:$)",
                    Assertion::WordBoundary => "\\b",
                    Assertion::NotWordBoundary => "\\B",
                    Assertion::LeftWordBoundary => "\\<",
                    Assertion::RightWordBoundary => "\\>",
                    _ => {
                        self.ok = false;
                        ""
                    }
                };
                self.out.push_str(s);
            }
            Expr::Literal { val, casei } => {
                if *casei {
                    if self.st.inline_flags {
                        self.out.push_str("(?:(?i)");
                        self.lit(val);
                        self.out.push(')');
                    } else {
                        self.out.push_str("(?i:");
                        self.lit(val);
                        self.out.push(')');
                    }
                } else if prec >= 2 && val.chars().count() != 1 {
                    self.out.push_str("(?:");
                    self.lit(val);
                    self.out.push(')');
                } else {
                    self.lit(val);
                }
            }
            Expr::Concat(v) => {
                if prec >= 1 {
                    // a nested concatenation only arises from an explicit group
                    self.out.push_str("(?:");
                }
                for (i, c) in v.iter().enumerate() {
                    if i > 0 {
                        self.sep();
                    }
                    self.expr(c, 1);
                }
                if prec >= 1 {
                    self.out.push(')');
                }
            }
            Expr::Alt(v) => {
                if prec >= 1 {
                    self.out.push_str("(?:");
                }
                for (i, c) in v.iter().enumerate() {
                    if i > 0 {
                        self.ws_opt();
                        self.out.push('|');
                        self.ws_opt();
                    }
                    // an alternative that is itself an alternation must keep its own group
                    if let Expr::Alt(_) = c {
                        self.grouped(c);
                    } else {
                        self.expr(c, 0);
                    }
                }
                if prec >= 1 {
                    self.out.push(')');
                }
            }
            Expr::Group(c) => {
                self.group += 1;
                if self.st.named {
                    self.out.push_str(&std::format!("(?<g{}>", self.group));
                } else {
                    self.out.push('(');
                }
                self.ws_opt();
                self.expr(c, 0);
                self.ws_opt();
                self.out.push(')');
            }
            Expr::LookAround(c, la) => {
                if let Expr::Delegate { inner, .. } = &**c {
                    if inner == "\n*$" && *la == LookAround::LookAhead {
                        self.out.push_str("\\Z");
                        return;
                    }
                }
                self.out.push_str(match la {
                    LookAround::LookAhead => "(?=",
                    LookAround::LookAheadNeg => "(?!",
                    LookAround::LookBehind => "(?<=",
                    LookAround::LookBehindNeg => "(?<!",
                });
                self.ws_opt();
                self.expr(c, 0);
                self.ws_opt();
                self.out.push(')');
            }
            Expr::Repeat { child, lo, hi, greedy } => {
                if prec >= 2 {
                    self.out.push_str("(?:");
                }
                self.repeat(child, *lo, *hi, *greedy);
                if prec >= 2 {
                    self.out.push(')');
                }
            }
            Expr::Delegate { inner, casei, .. } => {
                if *casei {
                    self.out.push_str("(?i:");
                    self.out.push_str(inner);
                    self.out.push(')');
                } else {
                    self.out.push_str(inner);
                }
            }
            Expr::Backref(g) => self.backref(*g),
            Expr::AtomicGroup(c) => {
                if self.st.possessive_sugar {
                    if let Expr::Repeat { child, lo, hi, greedy } = &**c {
                        if prec >= 2 {
                            self.out.push_str("(?:");
                        }
                        self.repeat(child, *lo, *hi, *greedy);
                        self.out.push('+');
                        if prec >= 2 {
                            self.out.push(')');
                        }
                        return;
                    }
                }
                self.out.push_str("(?>");
                self.ws_opt();
                self.expr(c, 0);
                self.ws_opt();
                self.out.push(')');
            }
            Expr::KeepOut => self.out.push_str("\\K"),
            Expr::ContinueFromPreviousMatchEnd => self.out.push_str("\\G"),
            Expr::BackrefExistsCondition(g) => {
                if self.st.named {
                    self.out.push_str(&std::format!("(?(<g{}>))", g));
                } else {
                    self.out.push_str(&std::format!("(?({}))", g));
                }
            }
            Expr::Conditional { condition, true_branch, false_branch } => {
                self.out.push_str("(?(");
                match &**condition {
                    Expr::BackrefExistsCondition(g) => {
                        if self.st.named {
                            self.out.push_str(&std::format!("<g{}>", g));
                        } else {
                            self.out.push_str(&std::format!("{}", g));
                        }
                    }
                    c => {
                        let mark = self.out.len();
                        self.expr(c, 0);
                        let printed = self.out[mark..].to_string();
                        if printed.starts_with(|ch: char| ch.is_ascii_digit() || ch == '\'' || ch == '<') || printed.is_empty() {
                            self.out.truncate(mark);
                            self.out.push_str("(?:");
                            self.out.push_str(&printed);
                            self.out.push(')');
                        }
                    }
                }
                self.out.push(')');
                if let Expr::Alt(_) = &**true_branch {
                    self.grouped(true_branch);
                } else {
                    self.expr(true_branch, 0);
                }
                if **false_branch != Expr::Empty {
                    self.out.push('|');
                    self.expr(false_branch, 0);
                }
                self.out.push(')');
            }
            Expr::SubroutineCall(_) => self.ok = false,
        }
    }

    fn repeat(&mut self, child: &Expr, lo: usize, hi: usize, greedy: bool) {
        if is_atomic_syntax(child) {
            self.expr(child, 2);
        } else {
            self.grouped(child);
        }
        self.ws_opt();
        match (lo, hi) {
            (0, 1) => self.out.push('?'),
            (0, usize::MAX) => self.out.push('*'),
            (1, usize::MAX) => self.out.push('+'),
            (lo, hi) => {
                self.out.push('{');
                self.out.push_str(&std::format!("{}", lo));
                if lo != hi {
                    self.out.push(',');
                    if hi != usize::MAX {
                        self.out.push_str(&std::format!("{}", hi));
                    }
                }
                self.out.push('}');
            }
        }
        if !greedy {
            self.ws_opt();
            self.out.push('?');
        }
    }

    fn backref(&mut self, g: usize) {
        if self.st.named {
            self.out.push_str(&std::format!("\\k<g{}>", g));
            return;
        }
        match self.st.backref {
            1 => self.out.push_str(&std::format!("\\k<{}>", g)),
            2 if g <= self.group && g >= 1 => {
                // relative: -1 is the most recently opened group
                let rel = self.group - g + 1;
                self.out.push_str(&std::format!("\\k<-{}>", rel));
            }
            _ => {
                self.out.push_str(&std::format!("\\{}", g));
            }
        }
    }
}

pub fn unparse(e: &Expr, st: &Style) -> Option<String> {
    let mut u = Up { st, group: 0, out: String::new(), ok: true };
    if st.freespace {
        u.out.push_str("(?x)");
        u.ws_opt();
    }
    u.expr(e, 0);
    if st.freespace {
        u.ws_opt();
    }
    if u.ok {
        Some(u.out)
    } else {
        None
    }
}

/// `unparse` guarded by the round trip through the real parser.
pub fn unparse_checked(e: &Expr, st: &Style) -> Option<String> {
    let s = unparse(e, st)?;
    match Expr::parse_tree(&s) {
        Ok(t) => {
            if &t.expr == e {
                Some(s)
            } else {
                None
            }
        }
        Err(_) => None,
    }
}

pub fn clone_expr(e: &Expr) -> Expr {
    match e {
        Expr::Empty => Expr::Empty,
        Expr::Any { newline } => Expr::Any { newline: *newline },
        Expr::Assertion(a) => Expr::Assertion(*a),
        Expr::Literal { val, casei } => Expr::Literal { val: val.clone(), casei: *casei },
        Expr::Concat(v) => Expr::Concat(v.iter().map(clone_expr).collect()),
        Expr::Alt(v) => Expr::Alt(v.iter().map(clone_expr).collect()),
        Expr::Group(c) => Expr::Group(Box::new(clone_expr(c))),
        Expr::LookAround(c, la) => Expr::LookAround(Box::new(clone_expr(c)), *la),
        Expr::Repeat { child, lo, hi, greedy } => Expr::Repeat { child: Box::new(clone_expr(child)), lo: *lo, hi: *hi, greedy: *greedy },
        Expr::Delegate { inner, size, casei } => Expr::Delegate { inner: inner.clone(), size: *size, casei: *casei },
        Expr::Backref(g) => Expr::Backref(*g),
        Expr::AtomicGroup(c) => Expr::AtomicGroup(Box::new(clone_expr(c))),
        Expr::KeepOut => Expr::KeepOut,
        Expr::ContinueFromPreviousMatchEnd => Expr::ContinueFromPreviousMatchEnd,
        Expr::BackrefExistsCondition(g) => Expr::BackrefExistsCondition(*g),
        Expr::Conditional { condition, true_branch, false_branch } => Expr::Conditional {
            condition: Box::new(clone_expr(condition)),
            true_branch: Box::new(clone_expr(true_branch)),
            false_branch: Box::new(clone_expr(false_branch)),
        },
        Expr::SubroutineCall(g) => Expr::SubroutineCall(*g),
    }
}

pub fn count_nodes(e: &Expr) -> usize {
    1 + match e {
        Expr::Concat(v) | Expr::Alt(v) => v.iter().map(count_nodes).sum(),
        Expr::Group(c) | Expr::LookAround(c, _) | Expr::AtomicGroup(c) => count_nodes(c),
        Expr::Repeat { child, .. } => count_nodes(child),
        Expr::Conditional { condition, true_branch, false_branch } => {
            count_nodes(condition) + count_nodes(true_branch) + count_nodes(false_branch)
        }
        _ => 0,
    }
}

fn empty_lookahead() -> Expr {
    Expr::LookAround(Box::new(Expr::Empty), LookAround::LookAhead)
}

/// Insert `(?=)` before (`after == false`) or after the node with pre-order index
/// `site`.  `counter` runs over the nodes in pre-order.
pub fn inject(e: &Expr, site: usize, after: bool, counter: &mut usize) -> Expr {
    let me = *counter;
    *counter += 1;
    let rebuilt = match e {
        Expr::Concat(v) => Expr::Concat(v.iter().map(|c| inject(c, site, after, counter)).collect()),
        Expr::Alt(v) => Expr::Alt(v.iter().map(|c| inject(c, site, after, counter)).collect()),
        Expr::Group(c) => Expr::Group(Box::new(inject(c, site, after, counter))),
        Expr::LookAround(c, la) => Expr::LookAround(Box::new(inject(c, site, after, counter)), *la),
        Expr::AtomicGroup(c) => Expr::AtomicGroup(Box::new(inject(c, site, after, counter))),
        Expr::Repeat { child, lo, hi, greedy } => {
            Expr::Repeat { child: Box::new(inject(child, site, after, counter)), lo: *lo, hi: *hi, greedy: *greedy }
        }
        Expr::Conditional { condition, true_branch, false_branch } => Expr::Conditional {
            condition: Box::new(inject(condition, site, after, counter)),
            true_branch: Box::new(inject(true_branch, site, after, counter)),
            false_branch: Box::new(inject(false_branch, site, after, counter)),
        },
        other => clone_expr(other),
    };
    if me == site {
        // the condition of a conditional that tests a group must stay what it is
        if let Expr::BackrefExistsCondition(_) = e {
            return rebuilt;
        }
        if after {
            Expr::Concat(vec![rebuilt, empty_lookahead()])
        } else {
            Expr::Concat(vec![empty_lookahead(), rebuilt])
        }
    } else {
        rebuilt
    }
}

/// Normalise a tree the way the parser would build it from the printed string:
/// a Concat directly inside a Concat stays nested (explicit group), but a Concat
/// with a single element or an Empty element cannot come out of the parser.
pub fn parser_shape(e: &Expr) -> bool {
    match e {
        Expr::Concat(v) => v.len() >= 2 && v.iter().all(|c| *c != Expr::Empty && parser_shape(c)),
        Expr::Alt(v) => v.len() >= 2 && v.iter().all(parser_shape),
        Expr::Group(c) | Expr::LookAround(c, _) | Expr::AtomicGroup(c) => parser_shape(c),
        Expr::Repeat { child, .. } => parser_shape(child),
        Expr::Conditional { condition, true_branch, false_branch } => {
            parser_shape(condition) && parser_shape(true_branch) && parser_shape(false_branch)
        }
        _ => true,
    }
}
