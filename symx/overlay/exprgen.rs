//! Patterns generated as *expression trees* (the crate's public `Expr` type) and printed by
//! /verif's own printer (`unparse.rs`).  The tree is the intended structure: the real parser
//! must rebuild exactly it from the printed string (otherwise the parser is wrong -- the
//! reference matcher would otherwise inherit every parser mistake), and the reference
//! matcher runs on the generated tree, not on the parser's.
//!
//! Only "parser-shaped" trees are generated (shapes the parser itself produces), for which
//! `parse(unparse(e)) == e` holds on a correct parser.
//!
//! This file is part of /verif (overlay), not of the repository.

use std::boxed::Box;
use std::string::String;
use std::vec::Vec;

use crate::corpus::{self, Rng};
use crate::unparse::{self, Style};
use crate::{Assertion, Expr, LookAround};

struct G<'a> {
    rng: &'a mut Rng,
    feats: u32,
    groups: usize,
    closed: Vec<usize>,
    /// groups that are open at the current position (a condition may test them)
    open: Vec<usize>,
    in_lookbehind: usize,
}

fn lit(s: &str) -> Expr {
    Expr::Literal { val: s.to_string(), casei: false }
}

impl<'a> G<'a> {
    fn has(&self, f: u32) -> bool {
        self.feats & f != 0
    }

    fn leaf(&mut self) -> Expr {
        let r = self.rng.below(100);
        if r < 10 && self.has(corpus::F_BACKREF) && !self.closed.is_empty() {
            return Expr::Backref(*self.rng.pick(&self.closed.clone()));
        }
        if r >= 10 && r < 13 && self.has(corpus::F_KEEP) {
            return Expr::KeepOut;
        }
        if r >= 13 && r < 16 && self.has(corpus::F_COND) && !self.closed.is_empty() {
            return Expr::BackrefExistsCondition(*self.rng.pick(&self.closed.clone()));
        }
        if r >= 16 && r < 24 && self.has(corpus::F_ANCHOR) && self.in_lookbehind == 0 {
            return Expr::Assertion(*self.rng.pick(&[
                Assertion::StartText,
                Assertion::EndText,
                Assertion::StartLine { crlf: false },
                Assertion::EndLine { crlf: false },
            ]));
        }
        if r >= 24 && r < 30 && self.has(corpus::F_WORDB) {
            return Expr::Assertion(*self.rng.pick(&[Assertion::WordBoundary, Assertion::NotWordBoundary]));
        }
        if r >= 30 && r < 40 && self.has(corpus::F_CLASS) {
            let inner = *self.rng.pick(&["[ab]", "[^a]", "\\d", "\\w", "[a-c]"]);
            return Expr::Delegate { inner: inner.to_string(), size: 1, casei: false };
        }
        if r >= 40 && r < 48 {
            return Expr::Any { newline: false };
        }
        if r >= 48 && r < 52 && self.has(corpus::F_MULTIBYTE) {
            return lit(*self.rng.pick(&["é", "€"]));
        }
        if r >= 52 && r < 56 && self.has(corpus::F_CASE) {
            return Expr::Literal { val: "a".to_string(), casei: true };
        }
        lit(*self.rng.pick(&["a", "b", "c", "a", "b"]))
    }

    fn repeatable(e: &Expr) -> bool {
        !matches!(e, Expr::LookAround(..) | Expr::Empty | Expr::Assertion(_))
    }

    fn node(&mut self, depth: usize) -> Expr {
        if depth == 0 {
            return self.leaf();
        }
        let r = self.rng.below(100);
        if r < 22 {
            let n = 2 + self.rng.below(2);
            let mut v = Vec::new();
            for _ in 0..n {
                let c = self.node(depth - 1);
                if c != Expr::Empty {
                    v.push(c);
                }
            }
            if v.len() < 2 {
                return self.leaf();
            }
            Expr::Concat(v)
        } else if r < 36 {
            let n = 2 + self.rng.below(3);
            let mut v = Vec::new();
            for k in 0..n {
                if k > 0 && self.rng.chance(1, 10) {
                    v.push(Expr::Empty);
                } else {
                    v.push(self.node(depth - 1));
                }
            }
            Expr::Alt(v)
        } else if r < 50 {
            self.groups += 1;
            let g = self.groups;
            self.open.push(g);
            let c = self.node(depth - 1);
            self.open.pop();
            self.closed.push(g);
            Expr::Group(Box::new(c))
        } else if r < 66 {
            let c = self.node(depth - 1);
            if !Self::repeatable(&c) {
                return c;
            }
            let (lo, hi) = *self.rng.pick(&[(0, 1), (0, usize::MAX), (1, usize::MAX), (2, 2), (1, 2), (0, 2), (2, usize::MAX), (1, 1)]);
            let greedy = !self.has(corpus::F_LAZY) || self.rng.chance(2, 3);
            let rep = Expr::Repeat { child: Box::new(c), lo, hi, greedy };
            if self.has(corpus::F_POSSESSIVE) && self.rng.chance(1, 8) {
                Expr::AtomicGroup(Box::new(rep))
            } else {
                rep
            }
        } else if r < 72 && self.has(corpus::F_ATOMIC) {
            Expr::AtomicGroup(Box::new(self.node(depth - 1)))
        } else if r < 82 && self.has(corpus::F_LOOK) {
            let k = self.rng.below(4);
            if k < 2 {
                let c = self.node(depth - 1);
                Expr::LookAround(Box::new(c), if k == 0 { LookAround::LookAhead } else { LookAround::LookAheadNeg })
            } else {
                self.in_lookbehind += 1;
                let c = self.lookbehind_body();
                self.in_lookbehind -= 1;
                Expr::LookAround(Box::new(c), if k == 2 { LookAround::LookBehind } else { LookAround::LookBehindNeg })
            }
        } else if r < 92 && self.has(corpus::F_COND) {
            self.cond(depth)
        } else {
            self.leaf()
        }
    }

    fn lookbehind_body(&mut self) -> Expr {
        let nalt = 1 + self.rng.below(2);
        let mut alts = Vec::new();
        for _ in 0..nalt {
            let n = 1 + self.rng.below(2);
            let mut v = Vec::new();
            for _ in 0..n {
                v.push(lit(*self.rng.pick(&["a", "b", "é"])));
            }
            alts.push(if v.len() == 1 { v.pop().unwrap() } else { Expr::Concat(v) });
        }
        if alts.len() == 1 {
            alts.pop().unwrap()
        } else {
            Expr::Alt(alts)
        }
    }

    fn cond(&mut self, depth: usize) -> Expr {
        let mut testable = self.closed.clone();
        testable.extend(self.open.iter().cloned());
        let condition = if !testable.is_empty() && self.rng.chance(1, 2) {
            Expr::BackrefExistsCondition(*self.rng.pick(&testable))
        } else {
            let c = self.node(depth - 1);
            match c {
                Expr::Empty | Expr::Backref(_) | Expr::BackrefExistsCondition(_) => lit("a"),
                other => other,
            }
        };
        let empty_yes = self.rng.chance(1, 8);
        let t = if empty_yes {
            Expr::Empty
        } else {
            match self.node(depth - 1) {
                Expr::Empty => lit("b"),
                other => other,
            }
        };
        let f = match self.rng.below(4) {
            0 if !empty_yes => Expr::Empty,
            1 => {
                // an else part with several alternatives
                let n = 2 + self.rng.below(3);
                Expr::Alt((0..n).map(|_| self.node(depth.saturating_sub(2))).collect())
            }
            _ => self.node(depth - 1),
        };
        Expr::Conditional { condition: Box::new(condition), true_branch: Box::new(t), false_branch: Box::new(f) }
    }
}

/// A random parser-shaped tree and its printed pattern.
pub fn random(rng: &mut Rng, feats: u32, max_depth: usize) -> Option<(Expr, String)> {
    let depth = 1 + rng.below(max_depth);
    let mut g = G { rng, feats, groups: 0, closed: Vec::new(), open: Vec::new(), in_lookbehind: 0 };
    let e = g.node(depth);
    if !unparse::parser_shape(&e) {
        return None;
    }
    let s = unparse::unparse(&e, &Style::default())?;
    Some((e, s))
}

/// Fixed family: a conditional whose else part has three and more alternatives.
pub fn conditional_families() -> Vec<(Expr, String)> {
    let words = ["a", "ab", "abc", "b"];
    let word = |w: &str| -> Expr {
        let v: Vec<Expr> = w.chars().map(|c| lit(&c.to_string())).collect();
        if v.len() == 1 {
            v.into_iter().next().unwrap()
        } else {
            Expr::Concat(v)
        }
    };
    let mut out = Vec::new();
    let st = Style::default();
    // "if" without "else" whose yes-branch is an alternation (finding F12)
    for (x, y) in [("a", "b"), ("ab", "a"), ("a", "ab")].iter() {
        let e = Expr::Concat(vec![
            Expr::Repeat { child: Box::new(Expr::Group(Box::new(lit("c")))), lo: 0, hi: 1, greedy: true },
            Expr::Conditional {
                condition: Box::new(Expr::BackrefExistsCondition(1)),
                true_branch: Box::new(Expr::Alt(vec![word(x), word(y)])),
                false_branch: Box::new(Expr::Empty),
            },
        ]);
        if let Some(s) = unparse::unparse(&e, &st) {
            out.push((e, s));
        }
        let e = Expr::Concat(vec![
            Expr::Conditional {
                condition: Box::new(lit("c")),
                true_branch: Box::new(Expr::Alt(vec![word(x), word(y), Expr::Empty])),
                false_branch: Box::new(Expr::Empty),
            },
            lit("b"),
        ]);
        if let Some(s) = unparse::unparse(&e, &st) {
            out.push((e, s));
        }
    }
    // a look-around as the condition, capture groups in both branches (group numbers follow
    // the order in which the parentheses open; seed S11-C16)
    for la in [LookAround::LookAhead, LookAround::LookAheadNeg, LookAround::LookBehind, LookAround::LookBehindNeg].iter() {
        let e = Expr::Concat(vec![
            Expr::Repeat { child: Box::new(lit("a")), lo: 0, hi: 1, greedy: true },
            Expr::Conditional {
                condition: Box::new(Expr::LookAround(Box::new(lit("a")), *la)),
                true_branch: Box::new(Expr::Group(Box::new(lit("b")))),
                false_branch: Box::new(Expr::Group(Box::new(lit("c")))),
            },
        ]);
        if let Some(s) = unparse::unparse(&e, &st) {
            out.push((e, s));
        }
    }
    // an empty yes-branch with a non-empty no-branch (seed S8-C15)
    for no in [vec!["b"], vec!["b", "c"], vec!["ab", "a"]].iter() {
        let no_e = if no.len() == 1 { word(no[0]) } else { Expr::Alt(no.iter().map(|w| word(w)).collect()) };
        let e1 = Expr::Concat(vec![
            Expr::Repeat { child: Box::new(Expr::Group(Box::new(lit("a")))), lo: 0, hi: 1, greedy: true },
            Expr::Conditional {
                condition: Box::new(Expr::BackrefExistsCondition(1)),
                true_branch: Box::new(Expr::Empty),
                false_branch: Box::new(unparse::clone_expr(&no_e)),
            },
            lit("c"),
        ]);
        let e2 = Expr::Concat(vec![
            Expr::Conditional {
                condition: Box::new(lit("a")),
                true_branch: Box::new(Expr::Empty),
                false_branch: Box::new(unparse::clone_expr(&no_e)),
            },
            lit("c"),
        ]);
        for e in [e1, e2] {
            if let Some(s) = unparse::unparse(&e, &st) {
                out.push((e, s));
            }
        }
    }
    for x in words.iter() {
        for y in words.iter() {
            for z in words.iter() {
                if x == y || y == z || x == z {
                    continue;
                }
                for extra in 0..2 {
                    let mut alts = vec![word(x), word(y), word(z)];
                    if extra == 1 {
                        alts.push(lit("c"));
                    }
                    // (c)?(?(1)b|x|y|z)
                    let e1 = Expr::Concat(vec![
                        Expr::Repeat { child: Box::new(Expr::Group(Box::new(lit("c")))), lo: 0, hi: 1, greedy: true },
                        Expr::Conditional {
                            condition: Box::new(Expr::BackrefExistsCondition(1)),
                            true_branch: Box::new(lit("b")),
                            false_branch: Box::new(Expr::Alt(alts.iter().map(unparse::clone_expr).collect())),
                        },
                    ]);
                    // (?(c)cb|x|y|z)
                    let e2 = Expr::Conditional {
                        condition: Box::new(lit("c")),
                        true_branch: Box::new(Expr::Concat(vec![lit("c"), lit("b")])),
                        false_branch: Box::new(Expr::Alt(alts.iter().map(|a| Expr::Group(Box::new(unparse::clone_expr(a)))).collect())),
                    };
                    for e in [e1, e2] {
                        if let Some(s) = unparse::unparse(&e, &st) {
                            out.push((e, s));
                        }
                    }
                }
            }
        }
    }
    out
}

/// A capture group under `{0}` followed by other groups: the parser must keep the group
/// (its number is part of the pattern's meaning even though it can never participate).
pub fn zero_repeat_families() -> Vec<(Expr, String)> {
    let st = Style::default();
    let g = |s: &str| Expr::Group(Box::new(lit(s)));
    let zero = |e: Expr| Expr::Repeat { child: Box::new(e), lo: 0, hi: 0, greedy: true };
    let la = |s: &str| Expr::LookAround(Box::new(lit(s)), LookAround::LookAhead);
    let mut trees: Vec<Expr> = Vec::new();
    trees.push(Expr::Concat(vec![zero(g("a")), g("b")]));
    trees.push(Expr::Concat(vec![zero(g("a")), g("b"), la("c")]));
    trees.push(Expr::Concat(vec![g("a"), zero(g("x")), g("b"), la("c")]));
    trees.push(Expr::Concat(vec![
        Expr::Repeat {
            child: Box::new(Expr::Alt(vec![Expr::Concat(vec![zero(g("x")), g("a")]), g("b")])),
            lo: 1,
            hi: usize::MAX,
            greedy: true,
        },
        Expr::LookAround(Box::new(lit("a")), LookAround::LookAheadNeg),
    ]));
    trees.push(Expr::Concat(vec![zero(Expr::Group(Box::new(Expr::Concat(vec![g("a"), lit("b")])))), g("c"), Expr::Backref(3)]));
    let mut out = Vec::new();
    for e in trees {
        if let Some(s) = unparse::unparse(&e, &st) {
            out.push((e, s));
        }
    }
    out
}
