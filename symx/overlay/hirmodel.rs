//! Model of regex-automata: an ordered-backtracking matcher over regex-syntax's `Hir`
//! (leftmost-first semantics), generic over the text type.  Used for
//! `Insn::Delegate`, for `RegexImpl::Wrap` and as "what the regex crate answers".
//!
//! This file is part of /verif (overlay), not of the repository.

use std::string::String;
use std::sync::Mutex;
use std::vec::Vec;

use regex_syntax::hir::{Class, Hir, HirKind, Look as HLook};

use crate::symtext::{Cls, Text};

// ---------------------------------------------------------------------------
// class registry (ids are used for the solver's define-fun)

static CLASSES: Mutex<Vec<Cls>> = Mutex::new(Vec::new());

pub fn intern_class(ranges: Vec<(u32, u32)>) -> Cls {
    let mut g = CLASSES.lock().unwrap();
    for c in g.iter() {
        if c.ranges == ranges {
            return c.clone();
        }
    }
    let c = Cls { id: g.len(), ranges };
    g.push(c.clone());
    c
}

pub fn word_class() -> Cls {
    static W: Mutex<Option<Cls>> = Mutex::new(None);
    let mut g = W.lock().unwrap();
    if let Some(c) = g.as_ref() {
        return c.clone();
    }
    let hir = regex_syntax::parse(r"\w").expect("parse \\w");
    let c = match hir.kind() {
        HirKind::Class(c) => intern_class(class_ranges(c)),
        _ => panic!("\\w is not a class"),
    };
    *g = Some(c.clone());
    c
}

fn class_ranges(c: &Class) -> Vec<(u32, u32)> {
    match c {
        Class::Unicode(u) => u.ranges().iter().map(|r| (r.start() as u32, r.end() as u32)).collect(),
        Class::Bytes(b) => b.ranges().iter().map(|r| (r.start() as u32, r.end() as u32)).collect(),
    }
}

// ---------------------------------------------------------------------------
// compiled model

#[derive(Debug, Clone)]
pub enum H {
    Empty,
    Lit(Vec<u8>),
    Class(Cls),
    Look(HLook),
    Rep { min: u32, max: Option<u32>, greedy: bool, sub: Box<H> },
    Cap { index: usize, sub: Box<H> },
    Concat(Vec<H>),
    Alt(Vec<H>),
}

#[derive(Debug, Clone)]
pub struct HProg {
    pub root: H,
    pub classes: Vec<Cls>,
    pub ncaps: usize,
    pub uses_word: bool,
    pub src: String,
}

fn conv(h: &Hir, p: &mut HProg) -> H {
    match h.kind() {
        HirKind::Empty => H::Empty,
        HirKind::Literal(l) => H::Lit(l.0.to_vec()),
        HirKind::Class(c) => {
            let cls = intern_class(class_ranges(c));
            if !p.classes.iter().any(|x| x.id == cls.id) {
                p.classes.push(cls.clone());
            }
            H::Class(cls)
        }
        HirKind::Look(l) => {
            match l {
                HLook::WordUnicode
                | HLook::WordUnicodeNegate
                | HLook::WordStartUnicode
                | HLook::WordEndUnicode
                | HLook::WordStartHalfUnicode
                | HLook::WordEndHalfUnicode => p.uses_word = true,
                _ => {}
            }
            H::Look(*l)
        }
        HirKind::Repetition(r) => H::Rep { min: r.min, max: r.max, greedy: r.greedy, sub: Box::new(conv(&r.sub, p)) },
        HirKind::Capture(c) => {
            let index = c.index as usize;
            if index + 1 > p.ncaps {
                p.ncaps = index + 1;
            }
            H::Cap { index, sub: Box::new(conv(&c.sub, p)) }
        }
        HirKind::Concat(v) => H::Concat(v.iter().map(|x| conv(x, p)).collect()),
        HirKind::Alternation(v) => H::Alt(v.iter().map(|x| conv(x, p)).collect()),
    }
}

pub fn compile(hir: &Hir, src: &str) -> HProg {
    let mut p = HProg { root: H::Empty, classes: Vec::new(), ncaps: 1, uses_word: false, src: src.to_string() };
    let root = conv(hir, &mut p);
    p.root = root;
    if p.uses_word {
        let w = word_class();
        if !p.classes.iter().any(|x| x.id == w.id) {
            p.classes.push(w);
        }
    }
    p
}

// ---------------------------------------------------------------------------
// look-around assertions (model of regex_automata::util::look::LookMatcher on
// valid UTF-8)

pub mod look {
    use super::word_class;
    use crate::symtext::Text;

    pub fn is_start<T: Text + ?Sized>(_t: &T, at: usize) -> bool {
        at == 0
    }
    pub fn is_end<T: Text + ?Sized>(t: &T, at: usize) -> bool {
        at == t.len()
    }
    pub fn is_start_lf<T: Text + ?Sized>(t: &T, at: usize) -> bool {
        at == 0 || t.as_bytes()[at - 1] == b'\n'
    }
    pub fn is_end_lf<T: Text + ?Sized>(t: &T, at: usize) -> bool {
        at == t.len() || t.as_bytes()[at] == b'\n'
    }
    pub fn is_start_crlf<T: Text + ?Sized>(t: &T, at: usize) -> bool {
        at == 0
            || t.as_bytes()[at - 1] == b'\n'
            || (t.as_bytes()[at - 1] == b'\r' && (at >= t.len() || t.as_bytes()[at] != b'\n'))
    }
    pub fn is_end_crlf<T: Text + ?Sized>(t: &T, at: usize) -> bool {
        at == t.len()
            || t.as_bytes()[at] == b'\r'
            || (t.as_bytes()[at] == b'\n' && (at == 0 || t.as_bytes()[at - 1] != b'\r'))
    }
    /// (is the character before `at` a word character, is the one at `at`)
    pub fn word_sides<T: Text + ?Sized>(t: &T, at: usize) -> (bool, bool) {
        let w = word_class();
        let before = at > 0 && {
            let st = crate::symtext::prev_boundary(t, at);
            t.class_contains(st, &w)
        };
        let after = at < t.len() && t.class_contains(at, &w);
        (before, after)
    }
    fn is_word_byte<B: crate::symtext::ByteLike>(b: B) -> bool {
        (b >= b'0' && b <= b'9') || (b >= b'A' && b <= b'Z') || b == b'_' || (b >= b'a' && b <= b'z')
    }
    pub fn word_sides_ascii<T: Text + ?Sized>(t: &T, at: usize) -> (bool, bool) {
        let before = at > 0 && is_word_byte(t.as_bytes()[at - 1]);
        let after = at < t.len() && is_word_byte(t.as_bytes()[at]);
        (before, after)
    }
}

fn look_holds<T: Text + ?Sized>(l: HLook, t: &T, at: usize) -> bool {
    match l {
        HLook::Start => look::is_start(t, at),
        HLook::End => look::is_end(t, at),
        HLook::StartLF => look::is_start_lf(t, at),
        HLook::EndLF => look::is_end_lf(t, at),
        HLook::StartCRLF => look::is_start_crlf(t, at),
        HLook::EndCRLF => look::is_end_crlf(t, at),
        HLook::WordAscii => {
            let (p, n) = look::word_sides_ascii(t, at);
            p != n
        }
        HLook::WordAsciiNegate => {
            let (p, n) = look::word_sides_ascii(t, at);
            p == n
        }
        HLook::WordStartAscii => {
            let (p, n) = look::word_sides_ascii(t, at);
            !p && n
        }
        HLook::WordEndAscii => {
            let (p, n) = look::word_sides_ascii(t, at);
            p && !n
        }
        HLook::WordStartHalfAscii => !look::word_sides_ascii(t, at).0,
        HLook::WordEndHalfAscii => !look::word_sides_ascii(t, at).1,
        HLook::WordUnicode => {
            let (p, n) = look::word_sides(t, at);
            p != n
        }
        HLook::WordUnicodeNegate => {
            let (p, n) = look::word_sides(t, at);
            p == n
        }
        HLook::WordStartUnicode => {
            let (p, n) = look::word_sides(t, at);
            !p && n
        }
        HLook::WordEndUnicode => {
            let (p, n) = look::word_sides(t, at);
            p && !n
        }
        HLook::WordStartHalfUnicode => !look::word_sides(t, at).0,
        HLook::WordEndHalfUnicode => !look::word_sides(t, at).1,
    }
}

// ---------------------------------------------------------------------------
// matcher

type Caps = Vec<Option<usize>>;
type K<'a> = &'a mut dyn FnMut(usize, &mut Caps) -> bool;

pub fn char_width<T: Text + ?Sized>(t: &T, ix: usize) -> usize {
    crate::symtext::cp_len(t.as_bytes()[ix])
}

fn m<T: Text + ?Sized>(h: &H, t: &T, i: usize, caps: &mut Caps, k: K<'_>) -> bool {
    match h {
        H::Empty => k(i, caps),
        H::Lit(l) => {
            let end = i + l.len();
            if end <= t.len() && t.as_bytes()[i..end] == l[..] {
                k(end, caps)
            } else {
                false
            }
        }
        H::Class(c) => {
            if i < t.len() && t.class_contains(i, c) {
                let w = char_width(t, i);
                k(i + w, caps)
            } else {
                false
            }
        }
        H::Look(l) => {
            if look_holds(*l, t, i) {
                k(i, caps)
            } else {
                false
            }
        }
        H::Cap { index, sub } => {
            let s0 = 2 * *index;
            let old_start = caps[s0];
            let old_end = caps[s0 + 1];
            // regex-automata writes the start slot when entering and the end slot when
            // leaving the group; both are undone when the thread dies.
            caps[s0] = Some(i);
            let r = m(sub, t, i, caps, &mut |j, c: &mut Caps| {
                let prev = c[s0 + 1];
                c[s0 + 1] = Some(j);
                if k(j, c) {
                    true
                } else {
                    c[s0 + 1] = prev;
                    false
                }
            });
            if !r {
                caps[s0] = old_start;
                caps[s0 + 1] = old_end;
            }
            r
        }
        H::Concat(v) => concat(v, t, i, caps, k),
        H::Alt(v) => {
            for a in v {
                if m(a, t, i, caps, k) {
                    return true;
                }
            }
            false
        }
        H::Rep { min, max, greedy, sub } => rep(sub, *min, *max, *greedy, 0, false, t, i, caps, k),
    }
}

fn concat<T: Text + ?Sized>(hs: &[H], t: &T, i: usize, caps: &mut Caps, k: K<'_>) -> bool {
    if hs.is_empty() {
        return k(i, caps);
    }
    m(&hs[0], t, i, caps, &mut |j, c: &mut Caps| concat(&hs[1..], t, j, c, k))
}

/// `n` iterations done so far; `prev_empty`: the last one consumed nothing.
///
/// Thompson construction of regex-automata: `x{n,}` = x^(n-1) x+ with x+ a do-while
/// loop (`x; plus: union[x.start, exit]`), `x*` over a nullable x = (x+)?.  A thread
/// that reaches an NFA state it already visited at the same position dies (sparse set
/// of the epsilon closure).  Consequences for the unbounded loop, with
/// L = max(min, 1) "first-entry" iterations:
///  * iterations with index < L may match empty;
///  * a loop-back iteration (index >= L) is not started when the previous iteration
///    consumed nothing (x.start already visited), and it dies if it consumes nothing
///    itself (it would come back to the visited `plus` state) -- the other
///    alternatives inside the body keep their priority.
/// Bounded repetitions are nested optionals without cycles: no restriction.
fn rep<T: Text + ?Sized>(
    sub: &H,
    min: u32,
    max: Option<u32>,
    greedy: bool,
    n: u32,
    prev_empty: bool,
    t: &T,
    i: usize,
    caps: &mut Caps,
    k: K<'_>,
) -> bool {
    if n < min {
        return m(sub, t, i, caps, &mut |j, c: &mut Caps| rep(sub, min, max, greedy, n + 1, j == i, t, j, c, k));
    }
    let first_entries = if min > 1 { min } else { 1 };
    let loop_back = max.is_none() && n >= first_entries;
    let can_more = match max {
        Some(mx) => n < mx,
        None => !(loop_back && prev_empty),
    };
    if greedy {
        if can_more
            && m(sub, t, i, caps, &mut |j, c: &mut Caps| {
                if loop_back && j == i {
                    false
                } else {
                    rep(sub, min, max, greedy, n + 1, j == i, t, j, c, k)
                }
            })
        {
            return true;
        }
        k(i, caps)
    } else {
        if k(i, caps) {
            return true;
        }
        can_more
            && m(sub, t, i, caps, &mut |j, c: &mut Caps| {
                if loop_back && j == i {
                    false
                } else {
                    rep(sub, min, max, greedy, n + 1, j == i, t, j, c, k)
                }
            })
    }
}

/// Anchored leftmost-first match at `ix`: end offset, capture slots in `out`
/// (slot 2g, 2g+1 for group g; group 0 is the whole match).
pub fn anchored<T: Text + ?Sized>(p: &HProg, t: &T, ix: usize, out: &mut Caps) -> Option<usize> {
    let mut caps: Caps = vec![None; 2 * p.ncaps];
    let mut end = None;
    let mut res: Caps = Vec::new();
    let found = m(&p.root, t, ix, &mut caps, &mut |j, c: &mut Caps| {
        end = Some(j);
        res = c.clone();
        true
    });
    if found {
        res[0] = Some(ix);
        res[1] = end;
        *out = res;
        end
    } else {
        None
    }
}

/// Every way the pattern matches at `ix`, in priority order: `k(end)`; stops at the
/// first `k` that returns true.
pub fn match_all<T: Text + ?Sized>(p: &HProg, t: &T, ix: usize, k: &mut dyn FnMut(usize) -> bool) -> bool {
    let mut caps: Caps = vec![None; 2 * p.ncaps];
    m(&p.root, t, ix, &mut caps, &mut |j, _c: &mut Caps| k(j))
}

/// Unanchored leftmost-first search from `pos`.
pub fn search<T: Text + ?Sized>(p: &HProg, t: &T, pos: usize) -> Option<Caps> {
    let mut start = pos;
    loop {
        let mut out = Vec::new();
        if anchored(p, t, start, &mut out).is_some() {
            return Some(out);
        }
        if start >= t.len() {
            return None;
        }
        start += char_width(t, start);
    }
}

pub fn parse(pattern: &str, cfg: &regex_automata::util::syntax::Config) -> Result<HProg, String> {
    match regex_automata::util::syntax::parse_with(pattern, cfg) {
        Ok(h) => Ok(compile(&h, pattern)),
        Err(e) => Err(std::format!("{}", e)),
    }
}
