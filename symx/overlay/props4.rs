//! C12: template expansion (`Expander`, `Captures::expand`) over a *symbolic template*.
//!
//! The repository's scanner (`Expander::exec`, `parse_id`, `parse_decimal`, `check`,
//! `escape`) is compiled generic over `TStr` (rules T1.. of gen.py) and executed on a template
//! whose bytes are z3 variables; the captures are real ones (a fixed set of regexes over a
//! fixed haystack: numbered, named, mixed, unmatched groups, ten and more groups, wrapped
//! and VM-compiled).  The documented interpretation is `reference()` below, written against
//! the same character abstraction but with its own index-based scanner.
//!
//! This file is part of /verif (overlay), not of the repository.

use std::string::{String, ToString};
use std::vec::Vec;

use crate::corpus::{Item, WorkList};
use crate::props::PatReport;
use crate::symx_api::RunCfg;

pub const TPL_HAY: &str = "ab\u{20ac}c";

/// (regex, note)
pub const TPL_REGEXES: [&str; 12] = [
    "(a)(b)(x)?(\u{20ac})",
    "(?<n>a)(?<m_2>b)(?<u>x)?",
    "(?<n>a)(b)(?=)",
    "a",
    "(a)(b)(x)?(\u{20ac})(?=)",
    "(a)(b)()()()()()()()(\u{20ac})(c)?",
    "(?<n>a)(?<m_2>b)(?<u>x)?(?=)",
    "(?<e1>a)(?<\u{e9}>b)",
    "(?<a>a)(?<ab>b)(?<_>\u{20ac})(?!x)",
    // a group whose *name* is a number that is the index of another group
    "(a)(?<1>b)",
    "(?<2>a)(b)(?=)",
    "(?<0>a)(?<03>b)()",
];

pub const SHARDS: usize = 4;

pub fn work_list(cfg: &RunCfg) -> Option<WorkList> {
    if cfg.prop != "C12" {
        return None;
    }
    let mut fixed = Vec::new();
    for r in TPL_REGEXES.iter() {
        for kind in ["default", "python"].iter() {
            // the layouts of one (regex, expander) pair are spread over SHARDS work items
            for shard in 0..SHARDS {
                let mut it = Item::new(r, "template-captures");
                it.n_extra = 0;
                it.variant = Some(kind.to_string());
                it.note = shard.to_string();
                fixed.push(it);
            }
        }
    }
    // longer templates: a concrete token sequence, then free bytes (three regexes)
    for r in TPL_REGEXES.iter().take(3) {
        for kind in ["default", "python"].iter() {
            for shard in 0..SHARDS {
                let mut it = Item::new(r, "template-pinned");
                it.n_extra = 0;
                it.variant = Some(kind.to_string());
                it.note = shard.to_string();
                fixed.push(it);
            }
        }
    }
    Some(WorkList { fixed, random_enabled: false, feats: 0, max_depth: 0 })
}

#[cfg(not(feature = "symx_tpl"))]
pub fn process_c12(_cfg: &RunCfg, _item: &Item, rep: &mut PatReport) {
    rep.status = "error:SYMX template rules (T*) could not be applied to expand.rs / parse.rs: source shape changed".to_string();
}

#[cfg(feature = "symx_tpl")]
pub use imp::process_c12;

#[cfg(feature = "symx_tpl")]
mod imp {
    use super::*;
    use std::borrow::{Borrow, ToOwned};
    use std::format;

    use crate::engine;
    use crate::props::{Cand, Fail, Obs};
    use crate::symtext::{LitLike, SymStr};
    use crate::symtpl::{self, TChar, TStr};
    use crate::symx_api::jstr;
    use crate::{Captures, Expander, Regex};

    fn hex(b: &[u8]) -> String {
        b.iter().map(|x| format!("{:02x}", x)).collect()
    }

    enum Tok<'a, S: TStr + ?Sized> {
        Lit(&'a S),
        Sub,
        Name(&'a S),
        Num(&'a S),
    }

    fn id_char<C: TChar>(c: C) -> bool {
        c == '_' || c.is_alphanumeric()
    }

    /// The documented syntax, scanned by index over the decoded characters.
    fn tokens<'a, S: TStr + ?Sized>(py: bool, t: &'a S) -> Vec<Tok<'a, S>> {
        let sub = if py { '\\' } else { '$' };
        let open: &[char] = if py { &['g', '<'] } else { &['{'] };
        let close = if py { '>' } else { '}' };
        let mut cs: Vec<(usize, S::Ch)> = Vec::new();
        for (o, c) in TStr::char_indices(t) {
            cs.push((o, c));
        }
        let n = cs.len();
        let end = LitLike::len(t);
        let off = |k: usize| if k < n { cs[k].0 } else { end };
        let mut out = Vec::new();
        let mut i = 0;
        while i < n {
            let c = cs[i].1;
            if !(c == sub) {
                out.push(Tok::Lit(&t[off(i)..off(i + 1)]));
                i += 1;
                continue;
            }
            if i + 1 < n && cs[i + 1].1 == sub {
                out.push(Tok::Sub);
                i += 2;
                continue;
            }
            // delimited name
            let mut j = i + 1;
            let mut opened = true;
            for oc in open {
                if j < n && cs[j].1 == *oc {
                    j += 1;
                } else {
                    opened = false;
                    break;
                }
            }
            if opened {
                let mut m = j;
                while m < n && id_char(cs[m].1) {
                    m += 1;
                }
                if m > j && m < n && cs[m].1 == close {
                    out.push(Tok::Name(&t[off(j)..off(m)]));
                    i = m + 1;
                    continue;
                }
            }
            if !py {
                // longest identifier
                let mut m = i + 1;
                while m < n && id_char(cs[m].1) {
                    m += 1;
                }
                if m > i + 1 {
                    out.push(Tok::Name(&t[off(i + 1)..off(m)]));
                    i = m;
                    continue;
                }
            }
            let mut m = i + 1;
            while m < n && cs[m].1.is_ascii_digit() {
                m += 1;
            }
            if m > i + 1 {
                out.push(Tok::Num(&t[off(i + 1)..off(m)]));
                i = m;
                continue;
            }
            // anything else is copied verbatim
            out.push(Tok::Lit(&t[off(i)..off(i + 1)]));
            i += 1;
        }
        out
    }

    pub struct Ctx<'a> {
        pub py: bool,
        pub pattern: &'a str,
        pub re: &'a Regex,
        pub caps: &'a Captures<'a>,
        pub names: Vec<Option<String>>,
        pub texts: Vec<Option<String>>,
    }

    impl<'a> Ctx<'a> {
        fn kind(&self) -> &'static str {
            if self.py {
                "python"
            } else {
                "default"
            }
        }

        /// group index a name refers to (None: no such group)
        fn resolve<S: TStr + ?Sized>(&self, name: &S) -> Option<usize> {
            let key = name.t_conc();
            if let Some(i) = self.names.iter().position(|n| n.as_deref() == Some(&*key)) {
                return Some(i);
            }
            let mut all_digits = true;
            for c in TStr::chars(name) {
                if !c.is_ascii_digit() {
                    all_digits = false;
                    break;
                }
            }
            if !all_digits {
                return None;
            }
            match <S as TStr>::from_str_radix(name, 10) {
                Ok(v) if v < self.texts.len() => Some(v),
                _ => None,
            }
        }

        fn fail(&self, op: &str, what: &str, observed: String, expected: String) -> Fail {
            Fail {
                what: what.to_string(),
                op: format!("tpl_{}_{}", op, self.kind()),
                pattern: self.pattern.to_string(),
                casei: false,
                limit: None,
                arg: 0,
                observed,
                expected,
            }
        }

        pub fn run<S: TStr + ?Sized>(&self, tpl: &S, show: &dyn Fn(&<S as ToOwned>::Owned) -> String) -> Obs {
            let mut obs = Obs::default();
            let exp = if self.py { Expander::python() } else { Expander::default() };

            // ---- the repository's expansion, through every entry point
            let s1 = exp.expansion(tpl, self.caps);
            let mut s2 = String::from("p");
            exp.append_expansion(&mut s2, tpl, self.caps);
            let mut v3: Vec<u8> = Vec::new();
            exp.write_expansion(&mut v3, tpl, self.caps).expect("write to a Vec");
            let mut v4: Vec<u8> = Vec::new();
            exp.write_expansion_vec(&mut v4, tpl, self.caps).expect("write to a Vec");
            let mut s5 = String::new();
            if !self.py {
                self.caps.expand(tpl, &mut s5);
            } else {
                s5 = s1.clone();
            }
            if s2 != format!("p{}", s1) || v3 != s1.as_bytes() || v4 != s1.as_bytes() || s5 != s1 {
                obs.fail = Some(self.fail(
                    "siblings",
                    "expansion, append_expansion, write_expansion, write_expansion_vec and Captures::expand disagree",
                    format!("S:{}|{}|{}|{}|{}", hex(s1.as_bytes()), hex(s2.as_bytes()), hex(&v3), hex(&v4), hex(s5.as_bytes())),
                    "five equal expansions".to_string(),
                ));
                return obs;
            }
            let real = <S as TStr>::decode_output(&s1);

            // ---- the documented interpretation
            let toks = tokens(self.py, tpl);
            let mut want = <S as TStr>::owned_from_str("");
            let mut refs = 0u64;
            let mut all_exist = true;
            for t in &toks {
                match t {
                    Tok::Lit(s) => <S as TStr>::push_owned(&mut want, s),
                    Tok::Sub => {
                        let o = <S as TStr>::owned_from_str(if self.py { "\\" } else { "$" });
                        <S as TStr>::push_owned(&mut want, o.borrow());
                    }
                    Tok::Name(s) | Tok::Num(s) => {
                        refs += 1;
                        let g = match t {
                            Tok::Num(_) => match <S as TStr>::from_str_radix(s, 10) {
                                Ok(v) if v < self.texts.len() => Some(v),
                                _ => None,
                            },
                            _ => self.resolve(*s),
                        };
                        match g {
                            Some(i) => {
                                if let Some(x) = &self.texts[i] {
                                    let o = <S as TStr>::owned_from_str(x);
                                    <S as TStr>::push_owned(&mut want, o.borrow());
                                }
                            }
                            None => all_exist = false,
                        }
                    }
                }
            }
            obs.items.push(format!("tokens={}", toks.len()));
            obs.items.push(format!("refs={}", refs));
            obs.matched = refs > 0;
            obs.counters.push(("templates_with_reference".to_string(), (refs > 0) as u64));
            if !<S as TStr>::same(real.borrow(), want.borrow()) {
                obs.fail = Some(self.fail(
                    "expand",
                    "the expansion differs from the documented interpretation of the template",
                    format!("O:{}", show(&real)),
                    format!("O:{}", show(&want)),
                ));
                return obs;
            }

            // ---- check accepts only templates whose references exist
            let ok = exp.check(tpl, self.re).is_ok();
            obs.items.push(format!("check={}", if ok { "ok" } else { "err" }));
            if ok && !all_exist {
                obs.fail = Some(self.fail(
                    "check",
                    "Expander::check accepts a template with a reference to a group that does not exist",
                    "OK".to_string(),
                    "ERR".to_string(),
                ));
                return obs;
            }

            // ---- expanding the escaped string gives the string back
            let esc = exp.escape(tpl);
            let e: &S = esc.borrow();
            let back = <S as TStr>::decode_output(&exp.expansion(e, self.caps));
            if !<S as TStr>::same(back.borrow(), tpl) {
                obs.fail = Some(self.fail(
                    "escape",
                    "expanding Expander::escape(s) does not give s back",
                    format!("O:{}", show(&back)),
                    format!("O:{}", show(&tpl.to_owned())),
                ));
                return obs;
            }
            obs
        }
    }

    pub fn process_c12(cfg: &RunCfg, item: &Item, rep: &mut PatReport) {
        let py = item.variant.as_deref() == Some("python");
        let re = match Regex::new(&item.pattern) {
            Ok(r) => r,
            Err(e) => {
                rep.status = format!("rejected:{:?}", e);
                return;
            }
        };
        let caps = match re.captures(TPL_HAY) {
            Ok(Some(c)) => c,
            other => {
                rep.status = format!("error:the fixed haystack does not match {:?}: {:?}", item.pattern, other.map(|x| x.is_some()));
                return;
            }
        };
        let names: Vec<Option<String>> = re.capture_names().map(|n| n.map(|s| s.to_string())).collect();
        let texts: Vec<Option<String>> = (0..caps.len()).map(|i| caps.get(i).map(|m| m.as_str().to_string())).collect();
        symtpl::KNOWN_NAMES.with(|k| *k.borrow_mut() = names.iter().flatten().cloned().collect());
        symtpl::NUM_THRESHOLD.with(|k| k.set(caps.len() + 1));
        rep.fancy = format!("{:?}", re).contains("Fancy") || item.pattern.contains("(?=)") || item.pattern.contains("(?!");
        let ctx = Ctx { py, pattern: &item.pattern, re: &re, caps: &caps, names, texts };
        let classes = symtpl::template_classes(crate::parse::is_id_char);
        let prop = "C12";
        let panic_op = format!("tpl_all_{}", ctx.kind());
        let show_sym = |o: &symtpl::SymString| format!("{:?}", o.0.iter().map(|b| crate::symtext::ByteLike::term(*b)).collect::<Vec<_>>());
        let show_str = |o: &String| hex(o.as_bytes());
        let shard: usize = item.note.parse().unwrap_or(0);
        // work units: (layout, pinned bytes).  The plain items take every layout of <= N free
        // bytes; the "template-pinned" items take a concrete token sequence followed by <= N - 1
        // free bytes (state carried from one token of the template to the next ones).
        let mut units: Vec<(Vec<usize>, Vec<String>)> = Vec::new();
        if item.gen == "template-pinned" {
            let prefixes: &[&str] = if py {
                &["\\.", "\\g<", "\\\\", "\\g<1>", "\\1", "\\.\\g<1>", "\\g<\\g<1>", "\\\\\\1", "a\\g<n>", "\\g<n>\\."]
            } else {
                &["$.", "$ ", "${", "$$", "${1}", "$1", "$.${1}", "${${1}", "$ ${n}", "$$$1", "$1$$", "${1}$.", "\u{e9}$1", "${n}$."]
            };
            for pre in prefixes.iter() {
                let mut pw: Vec<usize> = pre.chars().map(|c| c.len_utf8()).collect();
                let pins: Vec<String> = pre.bytes().enumerate().map(|(i, b)| format!("(= b{} #x{:02x})", i, b)).collect();
                for suffix in engine::layouts(cfg.n.saturating_sub(1)) {
                    let mut w = pw.clone();
                    w.extend(suffix.iter().cloned());
                    units.push((w, pins.clone()));
                }
                pw.clear();
            }
        } else {
            for widths in engine::layouts(cfg.n) {
                units.push((widths, Vec::new()));
            }
        }
        for (li, (widths, pins)) in units.into_iter().enumerate() {
            if li % SHARDS != shard {
                continue;
            }
            let ex = engine::explore(&widths, &classes, &pins, cfg.max_paths, true, |t: &SymStr| ctx.run(t, &show_sym));
            rep.explorations += 1;
            if let Some(e) = engine::take_error() {
                rep.status = format!("error:{}", e);
                rep.complete = false;
                return;
            }
            if !ex.complete {
                rep.complete = false;
                rep.not_covered.push(format!("layout {:?}: path cap {} reached", widths, cfg.max_paths));
            }
            if ex.closing_checked {
                rep.closing_ok += 1;
            }
            for p in ex.paths {
                rep.paths += 1;
                let text = match String::from_utf8(p.model.clone()) {
                    Ok(s) => s,
                    Err(_) => {
                        rep.status = format!("error:model template is not UTF-8: {:?}", p.model);
                        return;
                    }
                };
                let model = p.model.clone();
                let pc = p.pc.clone();
                let sym: Result<Obs, String> = p.value;
                if let Err(m) = &sym {
                    if m.contains(engine::ERR_PANIC) {
                        rep.status = format!("error:{}", m);
                        return;
                    }
                    if m.contains(engine::CAP_PANIC) {
                        rep.not_covered.push(format!("layout {:?} template {:?}: {}", widths, text, m));
                        rep.complete = false;
                        continue;
                    }
                }
                engine::LAST_PANIC.with(|q| *q.borrow_mut() = None);
                let conc = std::panic::catch_unwind(std::panic::AssertUnwindSafe(|| ctx.run(text.as_str(), &show_str)));
                let conc: Result<Obs, String> = match conc {
                    Ok(o) => Ok(o),
                    Err(_) => Err(engine::LAST_PANIC.with(|q| q.borrow_mut().take()).unwrap_or_else(|| "panic".to_string())),
                };
                rep.validated += 1;
                let mk = |f: &Fail| Cand {
                    prop: prop.to_string(),
                    what: f.what.clone(),
                    op: f.op.clone(),
                    pattern: f.pattern.clone(),
                    casei: false,
                    limit: None,
                    text: model.clone(),
                    pos: 0,
                    arg: 0,
                    observed: f.observed.clone(),
                    expected: f.expected.clone(),
                };
                match (&sym, &conc) {
                    (Ok(s), Ok(c)) => {
                        if s.items != c.items || s.fail.is_some() != c.fail.is_some() {
                            rep.divergences.push(format!(
                                "layout {:?} template {:?}: symbolic {:?} fail={:?} vs concrete {:?} fail={:?}",
                                widths, text, s.items, s.fail.as_ref().map(|f| f.op.clone()), c.items, c.fail.as_ref().map(|f| f.op.clone())
                            ));
                            continue;
                        }
                        if s.matched {
                            rep.saw_match = true;
                        } else {
                            rep.saw_nomatch = true;
                        }
                        for (k, v) in &s.counters {
                            rep.bump(k, *v);
                        }
                        if let Some(f) = &c.fail {
                            rep.candidates.push(mk(f));
                        }
                        if rep.samples.len() < 3 && (s.matched || rep.samples.is_empty()) && !text.is_empty() {
                            rep.samples.insert(0, format!(
                                "{{\"layout\":{:?},\"path_condition\":{},\"model_template\":{},\"observed\":{}}}",
                                widths, jstr(&pc.join(" ")), jstr(&text), jstr(&s.items.join(" ; "))
                            ));
                        }
                    }
                    (Err(ms), Err(_)) => {
                        rep.candidates.push(Cand {
                            prop: prop.to_string(),
                            what: format!("panic: {}", ms),
                            op: panic_op.clone(),
                            pattern: item.pattern.clone(),
                            casei: false,
                            limit: None,
                            text: model.clone(),
                            pos: 0,
                            arg: 0,
                            observed: "PANIC".to_string(),
                            expected: "a value or Err".to_string(),
                        });
                    }
                    (s, c) => {
                        rep.divergences.push(format!(
                            "layout {:?} template {:?}: symbolic {:?} vs concrete {:?}",
                            widths, text, s.as_ref().map(|o| o.items.clone()), c.as_ref().map(|o| o.items.clone())
                        ));
                    }
                }
            }
            if rep.candidates.len() > 20 || rep.divergences.len() > 20 {
                return;
            }
        }
    }
}
