//! Property oracles.  Every oracle is a `Body`: generic code that runs the
//! repository's real search (VM or wrapped automaton) and the reference under the
//! *same* text -- symbolic during exploration, concrete for the per-path cross-check.
//!
//! This file is part of /verif (overlay), not of the repository.

use std::string::String;
use std::vec::Vec;

use crate::corpus::{self, Item, Rng, WorkList};
use crate::engine::{self, Stats};
use crate::refsem::{self, Outcome, RProg};
use crate::symtext::{ByteLike, Cls, SymStr, Text};
use crate::symx_api::{self, jbytes, jstr, Built, RunCfg, VmRes};

#[derive(Clone, Debug)]
pub struct Cand {
    pub prop: String,
    pub what: String,
    /// replay operation: "search" | "find_iter" | ...
    pub op: String,
    pub pattern: String,
    pub casei: bool,
    pub limit: Option<usize>,
    pub text: Vec<u8>,
    pub pos: usize,
    pub arg: usize,
    pub observed: String,
    pub expected: String,
}

#[derive(Clone, Debug, Default)]
pub struct PatReport {
    pub pattern: String,
    pub variant: Option<String>,
    pub gen: String,
    pub status: String,
    pub explorations: u64,
    pub paths: u64,
    pub complete: bool,
    pub closing_ok: u64,
    pub validated: u64,
    pub nontrivial: bool,
    pub saw_match: bool,
    pub saw_nomatch: bool,
    pub candidates: Vec<Cand>,
    pub divergences: Vec<String>,
    pub not_covered: Vec<String>,
    pub insn_kinds: u32,
    pub fancy: bool,
    pub samples: Vec<String>,
    pub stats: Stats,
    pub extra: Vec<(String, u64)>,
    pub tags: Vec<String>,
}

impl PatReport {
    pub fn new(item: &Item) -> PatReport {
        PatReport {
            pattern: item.pattern.clone(),
            variant: item.variant.clone(),
            gen: item.gen.clone(),
            status: "checked".to_string(),
            complete: true,
            ..Default::default()
        }
    }
    pub fn bump(&mut self, key: &str, by: u64) {
        for (k, v) in self.extra.iter_mut() {
            if k == key {
                *v += by;
                return;
            }
        }
        self.extra.push((key.to_string(), by));
    }
}

#[derive(Clone, Debug)]
pub struct Fail {
    pub what: String,
    pub op: String,
    pub pattern: String,
    pub casei: bool,
    pub limit: Option<usize>,
    pub arg: usize,
    pub observed: String,
    pub expected: String,
}

#[derive(Clone, Debug, Default)]
pub struct Obs {
    /// everything observed on this path (compared between the symbolic run and the
    /// concrete re-run on the model text)
    pub items: Vec<String>,
    pub fail: Option<Fail>,
    pub matched: bool,
    pub not_covered: Option<String>,
    pub counters: Vec<(String, u64)>,
}

pub trait Body {
    fn run<T: Text + ?Sized>(&self, t: &T, pos: usize) -> Obs;
    /// replay operation that reproduces a panic raised inside `run`
    fn panic_op(&self) -> &'static str {
        "search"
    }
    /// which start offsets to explore for a layout (default: every char boundary)
    fn positions(&self, widths: &[usize]) -> Vec<usize> {
        let mut v = vec![0];
        let mut s = 0;
        for w in widths {
            s += w;
            v.push(s);
        }
        v
    }
}

pub fn is_boundary<T: Text + ?Sized>(t: &T, ix: usize) -> bool {
    ix == 0 || ix == t.len() || (ix < t.len() && t.as_bytes()[ix].ge_i8(-0x40))
}

fn lossy(b: &[u8]) -> String {
    String::from_utf8_lossy(b).to_string()
}

/// Explore `body` over every layout of at most `n` bytes and every start offset.
thread_local! {
    pub static N_EXTRA: std::cell::Cell<usize> = std::cell::Cell::new(0);
}

pub fn drive<B: Body>(prop: &str, body: &B, classes: &[Cls], n: usize, cfg: &RunCfg, rep: &mut PatReport) {
    let n = n + N_EXTRA.with(|x| x.get());
    for widths in engine::layouts(n) {
        for pos in body.positions(&widths) {
            let ex = engine::explore(&widths, classes, &[], cfg.max_paths, true, |t: &SymStr| body.run(t, pos));
            rep.explorations += 1;
            if let Some(e) = engine::take_error() {
                rep.status = std::format!("error:{}", e);
                rep.complete = false;
                return;
            }
            if !ex.complete {
                rep.complete = false;
                rep.not_covered.push(std::format!("layout {:?} pos {}: path cap {} reached", widths, pos, cfg.max_paths));
            }
            if ex.closing_checked {
                rep.closing_ok += 1;
            }
            for p in ex.paths {
                rep.paths += 1;
                let text = match String::from_utf8(p.model.clone()) {
                    Ok(s) => s,
                    Err(_) => {
                        rep.status = std::format!("error:model text is not UTF-8: {:?}", p.model);
                        return;
                    }
                };
                // symbolic observation
                let sym: Result<Obs, String> = p.value;
                if let Err(m) = &sym {
                    if m.contains(engine::ERR_PANIC) {
                        rep.status = std::format!("error:{}", m);
                        return;
                    }
                    if m.contains(engine::CAP_PANIC) || m.contains(symx_api::STEP_CAP_PANIC) {
                        rep.not_covered.push(std::format!("layout {:?} pos {} text {:?}: {}", widths, pos, text, m));
                        rep.complete = false;
                        // a VM that does not stop is itself a finding for the termination property
                        if prop == "C07" && m.contains(symx_api::STEP_CAP_PANIC) {
                            rep.candidates.push(Cand {
                                prop: prop.to_string(),
                                what: "VM step cap reached (no termination within 2*10^6 steps)".to_string(),
                                op: "search".to_string(),
                                pattern: rep.pattern.clone(),
                                casei: false,
                                limit: None,
                                text: p.model.clone(),
                                pos,
                                arg: 0,
                                observed: "STEPCAP".to_string(),
                                expected: "termination".to_string(),
                            });
                        }
                        continue;
                    }
                }
                // concrete re-run on the model text: real regex-automata, real LookMatcher
                engine::LAST_PANIC.with(|q| *q.borrow_mut() = None);
                let conc = std::panic::catch_unwind(std::panic::AssertUnwindSafe(|| body.run(text.as_str(), pos)));
                let conc: Result<Obs, String> = match conc {
                    Ok(o) => Ok(o),
                    Err(_) => Err(engine::LAST_PANIC.with(|q| q.borrow_mut().take()).unwrap_or_else(|| "panic".to_string())),
                };
                rep.validated += 1;
                match (&sym, &conc) {
                    (Ok(s), Ok(c)) => {
                        if s.items != c.items {
                            // The wrappers ran on a placeholder text on the symbolic side: code
                            // that looks at the text itself (not through the VM / automaton)
                            // sees the placeholder.  If the concrete run -- the real code on the
                            // model text -- shows a failure of the property, that is a
                            // counterexample (confirmed natively before it is reported).
                            if let Some(f) = &c.fail {
                                rep.candidates.push(Cand {
                                    prop: prop.to_string(),
                                    what: f.what.clone(),
                                    op: f.op.clone(),
                                    pattern: f.pattern.clone(),
                                    casei: f.casei,
                                    limit: f.limit,
                                    text: p.model.clone(),
                                    pos,
                                    arg: f.arg,
                                    observed: f.observed.clone(),
                                    expected: f.expected.clone(),
                                });
                                rep.bump("failures_seen_on_the_concrete_side_only", 1);
                                continue;
                            }
                            rep.divergences.push(std::format!(
                                "layout {:?} pos {} text {:?}: symbolic {:?} vs concrete {:?}",
                                widths, pos, text, s.items, c.items
                            ));
                            continue;
                        }
                        if s.matched {
                            rep.saw_match = true;
                        } else {
                            rep.saw_nomatch = true;
                        }
                        for (k, v) in &s.counters {
                            rep.bump(k, *v);
                        }
                        if let Some(nc) = &s.not_covered {
                            rep.not_covered.push(std::format!("text {:?} pos {}: {}", text, pos, nc));
                        }
                        // the concrete re-run carries the observation on the model text itself
                        let fail = if s.fail.is_some() && c.fail.is_some() { &c.fail } else { &s.fail };
                        if let Some(f) = fail {
                            rep.candidates.push(Cand {
                                prop: prop.to_string(),
                                what: f.what.clone(),
                                op: f.op.clone(),
                                pattern: f.pattern.clone(),
                                casei: f.casei,
                                limit: f.limit,
                                text: p.model.clone(),
                                pos,
                                arg: f.arg,
                                observed: f.observed.clone(),
                                expected: f.expected.clone(),
                            });
                        }
                        // prefer samples of paths on which something matched
                        if rep.samples.len() < 3 && (s.matched || rep.samples.is_empty()) && !text.is_empty() {
                            rep.samples.insert(0, std::format!(
                                "{{\"layout\":{:?},\"pos\":{},\"path_condition\":{},\"model_text\":{},\"observed\":{}}}",
                                widths,
                                pos,
                                jstr(&p.pc.join(" ")),
                                jstr(&text),
                                jstr(&s.items.join(" ; "))
                            ));
                        }
                    }
                    (Err(ms), Err(_mc)) => {
                        // panic on the symbolic path and on the concrete model text
                        rep.candidates.push(Cand {
                            prop: prop.to_string(),
                            what: std::format!("panic: {}", ms),
                            op: body.panic_op().to_string(),
                            pattern: rep.pattern.clone(),
                            casei: false,
                            limit: None,
                            text: p.model.clone(),
                            pos,
                            arg: 0,
                            observed: "PANIC".to_string(),
                            expected: "a value or Err".to_string(),
                        });
                    }
                    (s, c) => {
                        rep.divergences.push(std::format!(
                            "layout {:?} pos {} text {:?}: symbolic {:?} vs concrete {:?}",
                            widths,
                            pos,
                            text,
                            s.as_ref().map(|o| o.items.clone()),
                            c.as_ref().map(|o| o.items.clone())
                        ));
                    }
                }
            }
            if rep.candidates.len() > 20 || rep.divergences.len() > 20 {
                return;
            }
        }
    }
}

// ---------------------------------------------------------------------------
// reference outcome -> canonical text

pub fn ref_canon(o: &Outcome) -> String {
    match o {
        Outcome::Match(c) => VmRes::Match(c.clone()).canon(),
        Outcome::NoMatch => "N".to_string(),
        Outcome::Aborted => "ABORTED".to_string(),
        Outcome::LookBehindNotFixed => "LB-NOT-FIXED".to_string(),
    }
}

pub const REF_STEP_CAP: u64 = 200_000;

// ---------------------------------------------------------------------------
// C01 / C02 / C05: one search, compared with the reference

pub struct SearchBody<'a> {
    pub prop: &'a str,
    pub b: &'a Built,
    pub rp: &'a RProg,
    pub compare_ref: bool,
}

fn offsets_valid<T: Text + ?Sized>(t: &T, g: &[Option<(usize, usize)>]) -> Option<String> {
    for (i, x) in g.iter().enumerate() {
        if let Some((s, e)) = x {
            if !(s <= e && *e <= t.len()) {
                return Some(std::format!("group {}: span ({},{}) is not start <= end <= len {}", i, s, e, t.len()));
            }
            if !is_boundary(t, *s) || !is_boundary(t, *e) {
                return Some(std::format!("group {}: span ({},{}) is not on character boundaries", i, s, e));
            }
        }
    }
    if g.is_empty() || g[0].is_none() {
        return Some("group 0 is None on a successful search".to_string());
    }
    None
}

impl<'a> Body for SearchBody<'a> {
    fn run<T: Text + ?Sized>(&self, t: &T, pos: usize) -> Obs {
        let mut o = Obs::default();
        let vm = symx_api::search(self.b, t, pos, 0);
        o.items.push(vm.canon());
        o.matched = matches!(vm, VmRes::Match(_));
        let mk = |what: String, observed: String, expected: String| Fail {
            what,
            op: "search".to_string(),
            pattern: self.b.src.clone(),
            casei: false,
            limit: None,
            arg: 0,
            observed,
            expected,
        };
        if self.prop == "C05" {
            if let VmRes::Match(g) = &vm {
                if let Some(why) = offsets_valid(t, g) {
                    o.fail = Some(mk(why, vm.canon(), "valid offsets".to_string()));
                }
            }
            return o;
        }
        if !self.compare_ref {
            return o;
        }
        let rf = refsem::search(self.rp, t, pos, false, REF_STEP_CAP);
        let rc = ref_canon(&rf.outcome);
        o.items.push(std::format!("ref={}", rc));
        match &rf.outcome {
            Outcome::Aborted | Outcome::LookBehindNotFixed => {
                o.not_covered = Some(rc);
                return o;
            }
            _ => {}
        }
        let same = match (&vm, &rf.outcome) {
            (VmRes::NoMatch, Outcome::NoMatch) => true,
            (VmRes::Match(g), Outcome::Match(c)) => {
                if self.prop == "C01" {
                    g.get(0) == c.get(0)
                } else {
                    g == c
                }
            }
            _ => false,
        };
        if !same {
            let what = match (&vm, &rf.outcome) {
                (VmRes::Err(e), _) => std::format!("search returns Err({}) where the reference answers {}", e, rc),
                (VmRes::Match(_), Outcome::NoMatch) => "match reported where the reference has none".to_string(),
                (VmRes::NoMatch, Outcome::Match(_)) => "no match reported where the reference has one".to_string(),
                _ => {
                    if self.prop == "C01" {
                        "overall span differs from the reference".to_string()
                    } else {
                        "capture groups differ from the reference".to_string()
                    }
                }
            };
            o.fail = Some(mk(what, vm.canon(), rc));
        }
        o
    }
}

// ---------------------------------------------------------------------------
// per-pattern processing

pub fn parse_raw(pattern: &str) -> Result<crate::parse::ExprTree, String> {
    crate::Expr::parse_tree(pattern).map_err(|e| std::format!("{:?}", e))
}

fn union_classes(a: &[Cls], b: &[Cls]) -> Vec<Cls> {
    let mut v: Vec<Cls> = a.to_vec();
    for c in b {
        if !v.iter().any(|x| x.id == c.id) {
            v.push(c.clone());
        }
    }
    v
}

fn has_selfref(e: &crate::Expr, open: &mut Vec<usize>, counter: &mut usize) -> bool {
    use crate::Expr::*;
    match e {
        Group(c) => {
            *counter += 1;
            let g = *counter;
            open.push(g);
            let r = has_selfref(c, open, counter);
            open.pop();
            r
        }
        Backref(g) | BackrefExistsCondition(g) => open.contains(g),
        Concat(v) | Alt(v) => {
            let mut r = false;
            for x in v {
                r |= has_selfref(x, open, counter);
            }
            r
        }
        LookAround(c, _) | AtomicGroup(c) => has_selfref(c, open, counter),
        Repeat { child, .. } => has_selfref(child, open, counter),
        Conditional { condition, true_branch, false_branch } => {
            let a = has_selfref(condition, open, counter);
            let b = has_selfref(true_branch, open, counter);
            let c = has_selfref(false_branch, open, counter);
            a || b || c
        }
        _ => false,
    }
}

/// Does the pattern contain an inline flag group `(?i)` (no colon) whose innermost
/// enclosing group is a capture / named / atomic / look-around group?  (Known finding F11:
/// the flag then stays in effect after that group closes.)
pub fn inline_flag_in_leaky_group(p: &str) -> bool {
    let b = p.as_bytes();
    let mut stack: Vec<bool> = Vec::new(); // true = leaky kind
    let mut i = 0;
    let mut in_class = 0usize;
    while i < b.len() {
        match b[i] {
            b'\\' => {
                i += 2;
                continue;
            }
            b'[' => in_class += 1,
            b']' if in_class > 0 => in_class -= 1,
            b'(' if in_class == 0 => {
                let rest = &p[i + 1..];
                if rest.starts_with('?') {
                    // (?flags) / (?flags:...) / (?:...) / (?#...) vs the other group kinds
                    let mut j = 1;
                    let rb = rest.as_bytes();
                    while j < rb.len() && (rb[j] == b'-' || b"imsxUu".contains(&rb[j])) {
                        j += 1;
                    }
                    if j < rb.len() && rb[j] == b')' && j > 1 {
                        if stack.last().copied().unwrap_or(false) {
                            return true;
                        }
                        i += 1 + j + 1;
                        continue;
                    }
                    if j < rb.len() && rb[j] == b':' {
                        stack.push(false);
                    } else if rest.starts_with("?#") {
                        // comment: skip to the closing parenthesis
                        while i < b.len() && b[i] != b')' {
                            i += 1;
                        }
                    } else {
                        stack.push(true);
                    }
                } else {
                    stack.push(true);
                }
            }
            b')' if in_class == 0 => {
                stack.pop();
            }
            _ => {}
        }
        i += 1;
    }
    false
}

/// Structural facts about a pattern that known findings are keyed on.
pub fn structural_tags(e: &crate::Expr) -> Vec<String> {
    fn walk(e: &crate::Expr, in_atomic_scope: bool, in_lookbehind: bool, tags: &mut Vec<String>) {
        use crate::Expr::*;
        let mut add = |t: &str| {
            if !tags.iter().any(|x| x == t) {
                tags.push(t.to_string());
            }
        };
        match e {
            Conditional { condition, true_branch, false_branch } => {
                if in_atomic_scope {
                    add("conditional-inside-atomic-scope");
                }
                // the condition of a conditional is compiled between BeginAtomic/EndAtomic
                walk(condition, true, in_lookbehind, tags);
                walk(true_branch, in_atomic_scope, in_lookbehind, tags);
                walk(false_branch, in_atomic_scope, in_lookbehind, tags);
            }
            AtomicGroup(c) => walk(c, true, in_lookbehind, tags),
            LookAround(c, la) => {
                let lb = matches!(la, crate::LookAround::LookBehind | crate::LookAround::LookBehindNeg);
                // the body of a positive look-around is compiled between BeginAtomic/EndAtomic
                let pos = matches!(la, crate::LookAround::LookAhead | crate::LookAround::LookBehind);
                walk(c, in_atomic_scope || pos, in_lookbehind || lb, tags)
            }
            KeepOut => {
                if in_lookbehind {
                    add("keepout-inside-lookbehind");
                }
            }
            ContinueFromPreviousMatchEnd => {
                if in_lookbehind {
                    add("contg-inside-lookbehind");
                }
            }
            Concat(v) | Alt(v) => {
                for c in v {
                    walk(c, in_atomic_scope, in_lookbehind, tags);
                }
            }
            Group(c) => walk(c, in_atomic_scope, in_lookbehind, tags),
            Repeat { child, hi, .. } => {
                if *hi == 0 && contains_group(child) {
                    add("capture-group-under-zero-repeat");
                }
                walk(child, in_atomic_scope, in_lookbehind, tags)
            }
            _ => {}
        }
    }
    fn contains_group(e: &crate::Expr) -> bool {
        use crate::Expr::*;
        match e {
            Group(_) => true,
            Concat(v) | Alt(v) => v.iter().any(contains_group),
            LookAround(c, _) | AtomicGroup(c) => contains_group(c),
            Repeat { child, .. } => contains_group(child),
            Conditional { condition, true_branch, false_branch } => contains_group(condition) || contains_group(true_branch) || contains_group(false_branch),
            _ => false,
        }
    }
    let mut tags = Vec::new();
    walk(e, false, false, &mut tags);
    tags
}

pub fn process(cfg: &RunCfg, item: &Item) -> PatReport {
    let mut rep = PatReport::new(item);
    symx_api::clear_delegates();
    symx_api::set_step_cap(2_000_000);
    // the thorough tier already runs at N + 2; the extra byte is for the quick tier
    N_EXTRA.with(|x| x.set(if cfg.tier == "quick" { item.n_extra } else { 0 }));
    let r = std::panic::catch_unwind(std::panic::AssertUnwindSafe(|| process_inner(cfg, item, &mut rep)));
    if r.is_err() {
        let m = engine::LAST_PANIC.with(|q| q.borrow_mut().take()).unwrap_or_default();
        rep.status = std::format!("error:panic outside exploration: {}", m);
    }
    rep.stats = engine::take_stats();
    rep.nontrivial = rep.saw_match && rep.saw_nomatch;
    if cfg.verbose {
        eprintln!("{} {:?} -> {} paths={} cands={} div={}", cfg.prop, item.pattern, rep.status, rep.paths, rep.candidates.len(), rep.divergences.len());
    }
    rep
}

fn process_inner(cfg: &RunCfg, item: &Item, rep: &mut PatReport) {
    match cfg.prop.as_str() {
        "C01" | "C02" | "C05" | "C15" | "XGEN" => process_search(cfg, item, rep),
        "C03" | "C14" | "C19" => crate::props2::process_pair(cfg, item, rep),
        "C07" => crate::props2::process_limits(cfg, item, rep),
        "C20" => crate::props2::process_state(cfg, item, rep),
        "C13" => crate::props2::process_c13(cfg, item, rep),
        "C17" => crate::props2::process_escape(cfg, item, rep),
        "C04" => crate::props2::process_c04(cfg, item, rep),
        "C12" => crate::props4::process_c12(cfg, item, rep),
        "C08" | "C09" | "C10" | "C11" | "C16" => crate::props3::process_wrappers(cfg, item, rep),
        other => {
            rep.status = std::format!("error:unknown property {}", other);
        }
    }
}

fn process_search(cfg: &RunCfg, item: &Item, rep: &mut PatReport) {
    let tree = match parse_raw(&item.pattern) {
        Ok(t) => t,
        Err(e) => {
            rep.status = std::format!("rejected:{}", e);
            return;
        }
    };
    let b = match symx_api::build(&item.pattern, false, None) {
        Ok(b) => b,
        Err(e) => {
            if e.starts_with("SYMX") {
                rep.status = std::format!("error:{}", e);
            } else {
                rep.status = std::format!("rejected:{}", e);
            }
            return;
        }
    };
    rep.insn_kinds = b.insn_kinds;
    rep.fancy = b.fancy;
    // a pattern printed from a generated tree: the parser must rebuild exactly that tree, and
    // the reference runs on the generated tree (it must not inherit the parser's mistakes)
    let reference_tree: &crate::Expr = match &item.expected {
        Some(e) => {
            if **e != tree.expr {
                rep.candidates.push(Cand {
                    prop: cfg.prop.clone(),
                    what: "the parser builds a different expression tree than the one the pattern was printed from".to_string(),
                    op: "parse_debug".to_string(),
                    pattern: item.pattern.clone(),
                    casei: false,
                    limit: None,
                    text: Vec::new(),
                    pos: 0,
                    arg: 0,
                    observed: std::format!("{:?}", tree.expr),
                    expected: std::format!("{:?}", e),
                });
                return;
            }
            &**e
        }
        None => &tree.expr,
    };
    if cfg.prop == "XGEN" {
        return;
    }
    rep.tags = structural_tags(reference_tree);
    let rp = refsem::build(reference_tree);
    if let Some(u) = &rp.unsupported {
        rep.status = std::format!("skipped:{}", u);
        return;
    }
    let mut compare_ref = true;
    if cfg.prop != "C05" {
        // C01 compares existence and overall span only; in the F1 class those agree except
        // for a lazy repeat inside the loop (has_f1_lazy).  Only the deterministic families
        // are compared (their agreement on the unchanged tree is established once and does
        // not depend on VERIF_SEED); random patterns of the class stay excluded.
        let f1_spans = cfg.prop == "C01" && !rp.has_f1_lazy && !item.gen.starts_with("random");
        if rp.has_f1 && item.gen != "f1-witness" && !f1_spans {
            rep.status = "skipped:F1 class (unbounded repeat over a body that can match empty)".to_string();
            return;
        }
        if rp.has_contg || (rp.has_cond && cfg.prop != "C15") {
            // outside C01/C02's grammar (C08 / C15 cover them)
            rep.status = "skipped:outside the property's grammar".to_string();
            return;
        }
        if cfg.prop == "C02" {
            let mut open = Vec::new();
            let mut counter = 0;
            if has_selfref(&tree.expr, &mut open, &mut counter) {
                rep.status = "skipped:backreference to a group that is still open".to_string();
                return;
            }
        }
    } else {
        compare_ref = false;
    }
    let classes = union_classes(&b.classes, &rp.classes);
    let body = SearchBody { prop: &cfg.prop, b: &b, rp: &rp, compare_ref };
    drive(&cfg.prop, &body, &classes, cfg.n, cfg, rep);
    if cfg.prop == "C05" && rep.status == "checked" && rep.candidates.is_empty() {
        // the same pattern through every public entry point (iteration, split, replace)
        crate::props3::drive_entry_points(cfg, &b, &classes, rep);
    }
}

// ---------------------------------------------------------------------------
// corpus per property

const ATOMS_SMALL: [&str; 4] = ["a", "b", ".", "[ab]"];
const ATOMS_MED: [&str; 9] = ["a", "b", "c", ".", "[ab]", "\\w", "^", "$", "\\b"];
const OPS_QUICK: [&str; 11] = ["cap", "?", "*", "+", "*?", "{2}", "{1,2}", "atomic", "(?=", "(?!", "(?<="];
const OPS_FULL: [&str; 17] =
    ["cap", "?", "*", "+", "??", "*?", "+?", "{2}", "{1,2}", "{2,}", "?+", "*+", "atomic", "(?=", "(?!", "(?<=", "(?<!"];

fn feats_for(prop: &str) -> u32 {
    match prop {
        "C01" | "C02" => corpus::FEATS_C01,
        "C15" => corpus::FEATS_C01 | corpus::F_COND | corpus::F_NAMED,
        "XGEN" => corpus::FEATS_C01 | corpus::F_COND | corpus::F_CASE,
        "C05" => corpus::FEATS_ALL,
        _ => corpus::FEATS_C01,
    }
}

pub fn work_list(cfg: &RunCfg) -> WorkList {
    if let Some(w) = crate::props2::work_list(cfg) {
        return w;
    }
    if let Some(w) = crate::props3::work_list(cfg) {
        return w;
    }
    if let Some(w) = crate::props4::work_list(cfg) {
        return w;
    }
    let feats = feats_for(&cfg.prop);
    // C05 drives every pattern through every public entry point (about ten times the work
    // per pattern): its thorough tier deepens the text bound, not the pattern list
    let thorough = cfg.tier == "thorough" && cfg.prop != "C05";
    let mut fixed: Vec<Item> = Vec::new();
    for w in corpus::WITNESSES.iter() {
        fixed.push(Item::new(w, "witness"));
    }
    if cfg.prop == "C01" {
        for w in corpus::F1_WITNESSES.iter() {
            fixed.push(Item::new(w, "f1-witness"));
        }
    }
    for w in corpus::compile_matrix(thorough).iter() {
        fixed.push(Item::new(w, "compile-matrix"));
    }
    for w in corpus::alt_order(false).iter() {
        fixed.push(Item::new(w, "alt-order"));
    }
    // (C05 runs every pattern through every entry point: it takes the family without the
    // hard neighbours)
    for w in corpus::capture_restore(cfg.prop != "C05").iter() {
        fixed.push(Item::new(w, "capture-restore"));
    }
    for w in corpus::delegate_groups().iter() {
        fixed.push(Item::new(w, "delegate-groups"));
    }
    for w in corpus::start_anchor_shapes("(?=)").iter() {
        fixed.push(Item::new(w, "start-anchor-shapes"));
    }
    for w in corpus::bounded_repeats().iter() {
        fixed.push(Item::new(w, "bounded-repeats"));
    }
    if cfg.prop == "C01" {
        for w in corpus::empty_loops_in_lookahead().iter() {
            fixed.push(Item::new(w, "empty-loop-in-lookahead"));
        }
    }
    for w in corpus::many_groups().iter() {
        let mut it = Item::new(w, "many-groups");
        it.n_extra = 0;
        fixed.push(it);
    }
    if cfg.prop == "C01" || cfg.prop == "C02" {
        for w in corpus::ingredient_sweep(false).iter() {
            let mut it = Item::new(w, "ingredient-sweep");
            it.n_extra = 0;
            fixed.push(it);
        }
    }
    if cfg.prop == "C01" || cfg.prop == "C02" {
        // a capture group under {0}, as generated trees (the parser must keep the group; seed S9-C02)
        for (e, s) in crate::exprgen::zero_repeat_families() {
            fixed.push(Item::from_tree(e, &s, "zero-repeat-tree"));
        }
    }
    // a backreference compared against text whose characters have other widths than the
    // captured ones: needs a capture of two characters and five bytes of text (seed S8-C05)
    for w in ["(..)\\1", "(a.)\\1", "(?=.(..))\\1", "(.a)\\1", "(?i)(a.)\\1", "(..)(?=)\\1", "(?<n>..)\\k<n>"].iter() {
        let mut it = Item::new(w, "backref-width");
        it.n_extra = 2;
        fixed.push(it);
    }
    if cfg.prop != "C05" {
        for w in corpus::wide_cut().iter() {
            let mut it = Item::new(w, "wide-cut");
            // the point of these is the number of state operations, not the text
            it.n_extra = 0;
            fixed.push(it);
        }
    }
    if cfg.prop == "C15" {
        for (e, s) in crate::exprgen::conditional_families() {
            fixed.push(Item::from_tree(e, &s, "conditional-branches-tree"));
        }
        // an else part with three and more alternatives, in every order
        let words = ["a", "ab", "abc", "b"];
        for x in words.iter() {
            for y in words.iter() {
                for z in words.iter() {
                    if x == y || y == z || x == z {
                        continue;
                    }
                    fixed.push(Item::new(&std::format!("(c)?(?(1)b|{}|{}|{})", x, y, z), "conditional-branches"));
                    fixed.push(Item::new(&std::format!("(?<n>c)?(?(<n>)b|({})|({})|({}))c?", x, y, z), "conditional-branches"));
                    fixed.push(Item::new(&std::format!("(?(c)cb|{}|{}|{}|b)", x, y, z), "conditional-branches"));
                }
            }
        }
        for c in ["(?(a)X|c)b", "(?(a)c|X)b", "(b)?(?(1)X|c)c"].iter() {
            for w in corpus::alt_order(false).iter().step_by(3) {
                fixed.push(Item::new(&c.replace("X", &std::format!("(?:{})", w)), "alt-order-in-conditional"));
            }
        }
    }
    if cfg.prop == "C15" {
        for w in ["(a)?(?(1)b|c)", "(?(a)b|c)", "(?(a)b)", "(a)?(?(1))b", "(?<n>a)?(?(<n>)b|c)", "(?:(a)|b)(?(1)c|d)", "(?:(?(a)b|c))+", "(?>(?(a)b|c)d|.)", "(?(?=a)ab|c)", "(?(?!a)b|a)",
                  // a conditional inside the group it tests, re-entered by a loop: the group has
                  // matched in an earlier iteration and is open again (seed S6-C15)
                  "(?:(a|(?(1)b|c))-)+", "(?:-(a|(?(1)b)))+", "(?:(a|(?(1)b|c))c)+", "(?:(|(?(1)b|c))a)+", "(?:(a|(?(1)))b)+", "(?:(?<g>a|(?(<g>)b|c))a)+",
                  "(?:(a|b(?(1)c|d)))+", "((?(1)a|b))+", "(?:(a)|(?(1)b|c))+",
                  // an empty yes-branch with a non-empty no-branch (seed S8-C15)
                  "(a)?(?(1)|b)c", "(?(a)|b)c", "(a)?(?(1)|b|c)", "(?<g>a)?(?(<g>)|b)", "(?(1)|b)(a)?", "(?(?=a)|b)a", "(?(?!a)|a)b",
                  "(?(a)b|c|d)", "(?((?(b)a))b|a)", "(?(a)(?(b)c|d)|e)", "(?:(a)|b)*(?(1)c)", "(a)?(?:(?(1)b|c))*d", "(?=(a))?(?(1)a|b)", "(?(a*)b|c)", "(?(a|ab)c|d)", "((?(2)a|b))(c)?"].iter() {
            fixed.push(Item::new(w, "witness"));
        }
    }
    let (atoms, ops, size): (&[&str], &[&str], usize) =
        if thorough { (&ATOMS_SMALL, &OPS_QUICK, 4) } else { (&ATOMS_SMALL, &OPS_QUICK, 3) };
    for p in corpus::exhaustive(atoms, ops, size) {
        fixed.push(Item::new(&p, "exhaustive"));
    }
    // context x filler
    let fillers_src = corpus::exhaustive(&ATOMS_SMALL, &OPS_QUICK, if thorough { 3 } else { 2 });
    for ctx in corpus::contexts(feats) {
        for f in &fillers_src {
            let is_alt = f.contains('|') && !f.starts_with('(');
            fixed.push(Item::new(&corpus::fill(ctx, f, is_alt), "context-x-filler"));
        }
    }
    WorkList { fixed, random_enabled: true, feats, max_depth: if thorough { 4 } else { 3 } }
}

pub fn random_item(cfg: &RunCfg, w: &WorkList, rng: &mut Rng, k: usize) -> Item {
    if matches!(cfg.prop.as_str(), "C01" | "C02" | "C15" | "XGEN") && (k % 5 < 2 || cfg.prop == "XGEN") {
        // two fifths of the random part are generated as trees (parser checked against intent)
        for _ in 0..10 {
            if let Some((e, s)) = crate::exprgen::random(rng, w.feats, w.max_depth) {
                return Item::from_tree(e, &s, "random-tree");
            }
        }
    }
    if let Some(it) = crate::props2::random_item(cfg, w, rng, k) {
        return it;
    }
    if let Some(it) = crate::props3::random_item(cfg, w, rng, k) {
        return it;
    }
    let p = corpus::random_pattern(rng, w.feats, w.max_depth);
    Item::new(&p, "random")
}

// ---------------------------------------------------------------------------
// validation of the reference matcher against the repository's Oniguruma corpus

fn unhex(s: &str) -> Option<String> {
    let b: Option<Vec<u8>> = (0..s.len() / 2).map(|i| u8::from_str_radix(&s[2 * i..2 * i + 2], 16).ok()).collect();
    String::from_utf8(b?).ok()
}

/// Cases (kind, pattern, text, args) from $SYMX_CASES: x2 = group 0 span, x3 = span of the
/// given group, n = no match.  The reference matcher is run concretely on each pattern that
/// is inside its grammar and compared with Oniguruma's expected result.
pub fn refval(cfg: &RunCfg) {
    let path = std::env::var("SYMX_CASES").expect("SYMX_CASES");
    let data = std::fs::read_to_string(&path).expect("read cases");
    let (mut agree, mut disagree, mut skipped) = (0u64, Vec::<String>::new(), 0u64);
    for line in data.lines() {
        let f: Vec<&str> = line.split('\t').collect();
        if f.len() < 3 {
            continue;
        }
        let (kind, pat, text) = (f[0], unhex(f[1]), unhex(f[2]));
        let (pat, text) = match (pat, text) {
            (Some(p), Some(t)) => (p, t),
            _ => {
                skipped += 1;
                continue;
            }
        };
        let args: Vec<usize> = f[3..].iter().filter_map(|x| x.parse().ok()).collect();
        let tree = match crate::Expr::parse_tree(&pat) {
            Ok(t) => t,
            Err(_) => {
                skipped += 1;
                continue;
            }
        };
        // only patterns the engine itself accepts (the corpus is what the engine is tested on)
        if crate::Regex::new(&pat).is_err() {
            skipped += 1;
            continue;
        }
        let rp = refsem::build(&tree.expr);
        if rp.unsupported.is_some() || rp.has_f1 {
            skipped += 1;
            continue;
        }
        let r = std::panic::catch_unwind(std::panic::AssertUnwindSafe(|| refsem::search(&rp, text.as_str(), 0, false, 5_000_000)));
        let r = match r {
            Ok(r) => r,
            Err(_) => {
                disagree.push(std::format!("{:?} on {:?}: reference matcher panicked", pat, text));
                continue;
            }
        };
        let ok = match (&r.outcome, kind) {
            (Outcome::Aborted, _) | (Outcome::LookBehindNotFixed, _) => {
                skipped += 1;
                continue;
            }
            (Outcome::NoMatch, "n") => true,
            (Outcome::Match(c), "x2") => args.len() >= 2 && c[0] == Some((args[0], args[1])),
            (Outcome::Match(c), "x3") => args.len() >= 3 && c.get(args[2]).cloned().flatten() == Some((args[0], args[1])),
            _ => false,
        };
        if ok {
            agree += 1;
        } else {
            disagree.push(std::format!("{} {:?} on {:?} expected {:?}: reference gives {}", kind, pat, text, args, ref_canon(&r.outcome)));
        }
    }
    let mut s = std::format!("{{\"agree\":{},\"skipped\":{},\"disagree\":[", agree, skipped);
    for (i, d) in disagree.iter().enumerate() {
        if i > 0 {
            s.push(',');
        }
        s.push_str(&jstr(d));
    }
    s.push_str("]}\n");
    std::fs::write(&cfg.out, s).expect("write output");
    println!("refval: agree={} disagree={} skipped={}", agree, disagree.len(), skipped);
}

// ---------------------------------------------------------------------------
// output

pub fn write_output(cfg: &RunCfg, reports: &[PatReport], _stats: &Stats, wall: f64, fixed_len: usize) {
    let mut s = String::from("{\n");
    let mut tot = Stats::default();
    let (mut checked, mut rejected, mut skipped, mut errors, mut nontrivial, mut complete) = (0u64, 0u64, 0u64, 0u64, 0u64, 0u64);
    let mut paths = 0u64;
    let mut validated = 0u64;
    let mut explorations = 0u64;
    let mut closing_ok = 0u64;
    let mut kinds = [0u64; 22];
    let mut fancy = 0u64;
    let mut by_gen: Vec<(String, u64)> = Vec::new();
    let mut extra: Vec<(String, u64)> = Vec::new();
    for r in reports {
        tot.queries += r.stats.queries;
        tot.solver_s += r.stats.solver_s;
        tot.decides += r.stats.decides;
        tot.forced += r.stats.forced;
        tot.branches += r.stats.branches;
        tot.closing_queries += r.stats.closing_queries;
        tot.models += r.stats.models;
        paths += r.paths;
        validated += r.validated;
        explorations += r.explorations;
        closing_ok += r.closing_ok;
        if r.status == "checked" {
            checked += 1;
            if r.nontrivial {
                nontrivial += 1;
            }
            if r.complete {
                complete += 1;
            }
            if r.fancy {
                fancy += 1;
            }
            for k in 0..22 {
                if r.insn_kinds & (1 << k) != 0 {
                    kinds[k] += 1;
                }
            }
            match by_gen.iter_mut().find(|(g, _)| *g == r.gen) {
                Some((_, c)) => *c += 1,
                None => by_gen.push((r.gen.clone(), 1)),
            }
        } else if r.status.starts_with("rejected") {
            rejected += 1;
        } else if r.status.starts_with("skipped") || r.status == "not-covered-time" {
            skipped += 1;
        } else {
            errors += 1;
        }
        for (k, v) in &r.extra {
            match extra.iter_mut().find(|(g, _)| g == k) {
                Some((_, c)) => *c += *v,
                None => extra.push((k.clone(), *v)),
            }
        }
    }
    s.push_str(&std::format!("\"prop\":{},\n\"tier\":{},\n\"seed\":{},\n\"n\":{},\n", jstr(&cfg.prop), jstr(&cfg.tier), cfg.seed, cfg.n));
    s.push_str(&std::format!("\"wall_s\":{:.3},\n\"fixed_items\":{},\n\"items\":{},\n", wall, fixed_len, reports.len()));
    s.push_str(&std::format!(
        "\"patterns_checked\":{},\n\"patterns_rejected\":{},\n\"patterns_skipped\":{},\n\"patterns_error\":{},\n\"patterns_nontrivial\":{},\n\"patterns_complete\":{},\n\"patterns_fancy\":{},\n",
        checked, rejected, skipped, errors, nontrivial, complete, fancy
    ));
    s.push_str(&std::format!(
        "\"explorations\":{},\n\"paths\":{},\n\"closing_queries_unsat\":{},\n\"paths_validated_concretely\":{},\n",
        explorations, paths, closing_ok, validated
    ));
    s.push_str(&std::format!(
        "\"z3_queries\":{},\n\"solver_s\":{:.3},\n\"decides\":{},\n\"forced\":{},\n\"branches\":{},\n\"models\":{},\n",
        tot.queries, tot.solver_s, tot.decides, tot.forced, tot.branches, tot.models
    ));
    s.push_str("\"insn_kinds\":{");
    for k in 0..22 {
        if k > 0 {
            s.push(',');
        }
        s.push_str(&std::format!("{}:{}", jstr(symx_api::INSN_KIND_NAMES[k]), kinds[k]));
    }
    s.push_str("},\n\"by_generator\":{");
    for (i, (g, c)) in by_gen.iter().enumerate() {
        if i > 0 {
            s.push(',');
        }
        s.push_str(&std::format!("{}:{}", jstr(g), c));
    }
    s.push_str("},\n\"counters\":{");
    for (i, (g, c)) in extra.iter().enumerate() {
        if i > 0 {
            s.push(',');
        }
        s.push_str(&std::format!("{}:{}", jstr(g), c));
    }
    s.push_str("},\n\"candidates\":[\n");
    let mut first = true;
    for r in reports {
        for c in &r.candidates {
            if !first {
                s.push_str(",\n");
            }
            first = false;
            s.push_str(&std::format!(
                "{{\"prop\":{},\"tags\":[{}],\"what\":{},\"op\":{},\"pattern\":{},\"variant\":{},\"gen\":{},\"casei\":{},\"limit\":{},\"text\":{},\"text_str\":{},\"pos\":{},\"arg\":{},\"observed\":{},\"expected\":{}}}",
                jstr(&c.prop),
                r.tags.iter().map(|t| jstr(t)).collect::<Vec<_>>().join(","),
                jstr(&c.what),
                jstr(&c.op),
                jstr(&c.pattern),
                match &r.variant { Some(v) => jstr(v), None => "null".to_string() },
                jstr(&r.gen),
                c.casei,
                match c.limit { Some(l) => std::format!("{}", l), None => "null".to_string() },
                jbytes(&c.text),
                jstr(&lossy(&c.text)),
                c.pos,
                c.arg,
                jstr(&c.observed),
                jstr(&c.expected)
            ));
        }
    }
    s.push_str("\n],\n\"divergences\":[\n");
    let mut first = true;
    for r in reports {
        for d in &r.divergences {
            if !first {
                s.push_str(",\n");
            }
            first = false;
            s.push_str(&std::format!("{{\"pattern\":{},\"what\":{}}}", jstr(&r.pattern), jstr(d)));
        }
    }
    s.push_str("\n],\n\"errors\":[\n");
    let mut first = true;
    for r in reports {
        if r.status.starts_with("error") {
            if !first {
                s.push_str(",\n");
            }
            first = false;
            s.push_str(&std::format!("{{\"pattern\":{},\"status\":{}}}", jstr(&r.pattern), jstr(&r.status)));
        }
    }
    s.push_str("\n],\n\"not_covered\":[\n");
    let mut first = true;
    let mut nc = 0;
    let cut = reports.iter().filter(|r| r.status == "not-covered-time").count();
    if cut > 0 {
        s.push_str(&std::format!("{{\"pattern\":\"*\",\"what\":{}}}", jstr(&std::format!("{} fixed items were not processed: time cap of the fixed part reached (loaded machine?)", cut))));
        first = false;
    }
    for r in reports {
        for d in &r.not_covered {
            nc += 1;
            if nc > 200 {
                break;
            }
            if !first {
                s.push_str(",\n");
            }
            first = false;
            s.push_str(&std::format!("{{\"pattern\":{},\"what\":{}}}", jstr(&r.pattern), jstr(d)));
        }
    }
    s.push_str("\n],\n\"skipped_reasons\":{");
    let mut reasons: Vec<(String, u64)> = Vec::new();
    for r in reports {
        if r.status.starts_with("skipped") || r.status.starts_with("rejected") {
            let key: String = r.status.chars().take(60).collect();
            match reasons.iter_mut().find(|(g, _)| *g == key) {
                Some((_, c)) => *c += 1,
                None => reasons.push((key, 1)),
            }
        }
    }
    reasons.sort_by(|a, b| b.1.cmp(&a.1));
    for (i, (g, c)) in reasons.iter().take(25).enumerate() {
        if i > 0 {
            s.push(',');
        }
        s.push_str(&std::format!("{}:{}", jstr(g), c));
    }
    s.push_str("},\n\"samples\":[\n");
    let mut first = true;
    let mut ns = 0;
    for r in reports {
        if r.status != "checked" || !r.nontrivial {
            continue;
        }
        for smp in r.samples.iter().take(1) {
            ns += 1;
            if ns > 12 {
                break;
            }
            if !first {
                s.push_str(",\n");
            }
            first = false;
            s.push_str(&std::format!("{{\"pattern\":{},\"variant\":{},\"path\":{}}}", jstr(&r.pattern), match &r.variant { Some(v) => jstr(v), None => "null".to_string() }, smp));
        }
    }
    s.push_str("\n],\n\"nontrivial_patterns_sample\":[");
    let mut first = true;
    for r in reports.iter().filter(|r| r.status == "checked" && r.nontrivial).take(40) {
        if !first {
            s.push(',');
        }
        first = false;
        s.push_str(&jstr(&r.pattern));
    }
    s.push_str("]\n}\n");
    std::fs::write(&cfg.out, s).expect("write output");
    println!(
        "symx {} {}: items={} checked={} nontrivial={} rejected={} skipped={} errors={} paths={} queries={} wall={:.1}s",
        cfg.prop, cfg.tier, reports.len(), checked, nontrivial, rejected, skipped, errors, paths, tot.queries, wall
    );
}
