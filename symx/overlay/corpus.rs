//! Pattern corpus: exhaustive small trees, context x filler products, seeded random
//! trees, fixed witnesses.  Patterns are generated as *strings* and go through the
//! repository's real parser.
//!
//! This file is part of /verif (overlay), not of the repository.

use std::collections::HashSet;
use std::string::String;
use std::vec::Vec;

use crate::symx_api::RunCfg;

#[derive(Clone, Debug)]
pub struct Item {
    pub pattern: String,
    pub gen: String,
    /// explore this item with texts of N + n_extra bytes
    pub n_extra: usize,
    /// the tree the pattern was printed from (generated, not parsed): the parser must rebuild it
    pub expected: Option<std::sync::Arc<crate::Expr>>,
    /// second pattern for twin-program properties (C03 injection, C19 respelling, ...)
    pub variant: Option<String>,
    pub note: String,
}

impl Item {
    pub fn from_tree(e: crate::Expr, p: &str, gen: &str) -> Item {
        let mut it = Item::new(p, gen);
        it.expected = Some(std::sync::Arc::new(e));
        it
    }
    pub fn new(p: &str, gen: &str) -> Item {
        let n_extra = if gen == "compile-matrix" || gen == "witness" || gen == "alt-order" { 1 } else { 0 };
        Item { pattern: p.to_string(), gen: gen.to_string(), n_extra, expected: None, variant: None, note: String::new() }
    }
}

pub struct WorkList {
    pub fixed: Vec<Item>,
    pub random_enabled: bool,
    pub feats: u32,
    pub max_depth: usize,
}

pub const F_BACKREF: u32 = 1 << 0;
pub const F_LOOK: u32 = 1 << 1;
pub const F_ATOMIC: u32 = 1 << 2;
pub const F_KEEP: u32 = 1 << 3;
pub const F_CONTG: u32 = 1 << 4;
pub const F_COND: u32 = 1 << 5;
pub const F_FLAGS: u32 = 1 << 6;
pub const F_MULTIBYTE: u32 = 1 << 7;
pub const F_CLASS: u32 = 1 << 8;
pub const F_ANCHOR: u32 = 1 << 9;
pub const F_WORDB: u32 = 1 << 10;
pub const F_LAZY: u32 = 1 << 11;
pub const F_POSSESSIVE: u32 = 1 << 12;
pub const F_EMPTYLOOP: u32 = 1 << 13;
pub const F_SELFREF: u32 = 1 << 14;
pub const F_NAMED: u32 = 1 << 15;
pub const F_CASE: u32 = 1 << 16;

pub const FEATS_C01: u32 = F_BACKREF | F_LOOK | F_ATOMIC | F_KEEP | F_FLAGS | F_MULTIBYTE | F_CLASS | F_ANCHOR | F_WORDB | F_LAZY | F_POSSESSIVE;
pub const FEATS_ALL: u32 = FEATS_C01 | F_CONTG | F_COND | F_EMPTYLOOP | F_SELFREF | F_NAMED;

// ---------------------------------------------------------------------------
// rng

#[derive(Clone)]
pub struct Rng(pub u64);

impl Rng {
    pub fn new(seed: u64) -> Rng {
        let mut r = Rng(seed.wrapping_mul(0x9E3779B97F4A7C15) ^ 0xD1B54A32D192ED03);
        r.next();
        r.next();
        r
    }
    pub fn next(&mut self) -> u64 {
        let mut x = self.0;
        if x == 0 {
            x = 0x2545F4914F6CDD1D;
        }
        x ^= x >> 12;
        x ^= x << 25;
        x ^= x >> 27;
        self.0 = x;
        x.wrapping_mul(0x2545F4914F6CDD1D)
    }
    pub fn below(&mut self, n: usize) -> usize {
        (self.next() % (n as u64)) as usize
    }
    pub fn pick<'a, T>(&mut self, v: &'a [T]) -> &'a T {
        &v[self.below(v.len())]
    }
    pub fn chance(&mut self, num: usize, den: usize) -> bool {
        self.below(den) < num
    }
}

// ---------------------------------------------------------------------------
// exhaustive small trees

#[derive(Clone, Debug)]
struct Node {
    s: String,
    /// can take a quantifier directly
    atomic: bool,
    /// may be quantified at all (not an assertion / look-around / empty)
    repeatable: bool,
    /// top-level alternation (needs grouping inside a concatenation)
    alt: bool,
}

fn atom(s: &str) -> Node {
    let assertion = matches!(s, "^" | "$" | "\\A" | "\\z" | "\\b" | "\\B" | "\\K" | "\\G" | "\\Z");
    Node { s: s.to_string(), atomic: true, repeatable: !assertion, alt: false }
}

fn grp(n: &Node) -> String {
    if n.alt || !n.atomic {
        std::format!("(?:{})", n.s)
    } else {
        n.s.clone()
    }
}

fn cat_operand(n: &Node) -> String {
    if n.alt {
        std::format!("(?:{})", n.s)
    } else {
        n.s.clone()
    }
}

const UNARY: [&str; 17] = [
    "cap", "?", "*", "+", "??", "*?", "+?", "{2}", "{1,2}", "{2,}", "?+", "*+", "atomic", "(?=", "(?!", "(?<=", "(?<!",
];

fn unary(op: &str, n: &Node) -> Option<Node> {
    Some(match op {
        "cap" => Node { s: std::format!("({})", n.s), atomic: true, repeatable: true, alt: false },
        "atomic" => Node { s: std::format!("(?>{})", n.s), atomic: true, repeatable: true, alt: false },
        "(?=" | "(?!" | "(?<=" | "(?<!" => {
            Node { s: std::format!("{}{})", op, n.s), atomic: true, repeatable: false, alt: false }
        }
        q => {
            if !n.repeatable {
                return None;
            }
            Node { s: std::format!("{}{}", grp(n), q), atomic: false, repeatable: true, alt: false }
        }
    })
}

/// All pattern strings with at most `size` nodes over `atoms` and `ops`.
pub fn exhaustive(atoms: &[&str], ops: &[&str], size: usize) -> Vec<String> {
    let mut by_size: Vec<Vec<Node>> = vec![Vec::new(); size + 1];
    if size >= 1 {
        by_size[1] = atoms.iter().map(|a| atom(a)).collect();
    }
    for sz in 2..=size {
        let mut v: Vec<Node> = Vec::new();
        for op in ops {
            for n in &by_size[sz - 1] {
                if let Some(x) = unary(op, n) {
                    v.push(x);
                }
            }
        }
        for l in 1..sz - 1 {
            let r = sz - 1 - l;
            if r < 1 {
                continue;
            }
            for a in &by_size[l] {
                for b in &by_size[r] {
                    v.push(Node {
                        s: std::format!("{}{}", cat_operand(a), cat_operand(b)),
                        atomic: false,
                        repeatable: true,
                        alt: false,
                    });
                    v.push(Node { s: std::format!("{}|{}", a.s, b.s), atomic: false, repeatable: true, alt: true });
                }
            }
        }
        by_size[sz] = v;
    }
    let mut seen = HashSet::new();
    let mut out = Vec::new();
    for sz in 1..=size {
        for n in &by_size[sz] {
            if seen.insert(n.s.clone()) {
                out.push(n.s.clone());
            }
        }
    }
    out
}

// ---------------------------------------------------------------------------
// seeded random trees

struct Gen<'a> {
    rng: &'a mut Rng,
    feats: u32,
    opened: usize,
    closed: Vec<usize>,
    open_stack: Vec<usize>,
    in_lookbehind: usize,
    names: Vec<(usize, String)>,
}

impl<'a> Gen<'a> {
    fn has(&self, f: u32) -> bool {
        self.feats & f != 0
    }

    fn atom(&mut self) -> Node {
        let mut pool: Vec<&str> = vec!["a", "b", "c", "a", "b", "."];
        if self.has(F_MULTIBYTE) {
            pool.extend_from_slice(&["é", "€", "\\x{1F600}"]);
        }
        if self.has(F_CLASS) {
            pool.extend_from_slice(&["[ab]", "[^a]", "\\w", "\\d", "[a-c]", "\\s"]);
            if self.has(F_MULTIBYTE) {
                pool.extend_from_slice(&["[é]", "[^é]", "[à-ü]"]);
            }
        }
        if self.has(F_ANCHOR) && self.in_lookbehind == 0 {
            pool.extend_from_slice(&["^", "$", "\\A", "\\z", "\\n", "(?m:^)", "(?m:$)"]);
        }
        if self.has(F_WORDB) {
            pool.extend_from_slice(&["\\b", "\\B"]);
        }
        if self.has(F_CASE) {
            pool.extend_from_slice(&["A", "B", "(?i:a)", "(?-i:a)"]);
        }
        let s = *self.rng.pick(&pool);
        atom(s)
    }

    fn quant(&mut self) -> &'static str {
        let mut pool: Vec<&'static str> = vec!["?", "*", "+", "{2}", "{1,2}", "{0,2}", "{2,}", "?", "*", "+", "{1}", "{0,1}", "{1,}", "{0,}", "{0}"];
        if self.has(F_LAZY) {
            pool.extend_from_slice(&["??", "*?", "+?", "{1,2}?", "{2,}?", "{1}?", "{2}?", "{0,1}?", "{1,}?"]);
        }
        if self.has(F_POSSESSIVE) {
            pool.extend_from_slice(&["?+", "*+", "++"]);
        }
        *self.rng.pick(&pool)
    }

    fn node(&mut self, depth: usize) -> Node {
        if depth == 0 {
            return self.leaf();
        }
        let r = self.rng.below(100);
        if r < 22 {
            // concatenation
            let n = 2 + self.rng.below(2);
            let mut s = String::new();
            for _ in 0..n {
                let c = self.node(depth - 1);
                s.push_str(&cat_operand(&c));
            }
            Node { s, atomic: false, repeatable: true, alt: false }
        } else if r < 34 {
            let n = 2 + self.rng.below(2);
            let mut parts = Vec::new();
            for _ in 0..n {
                if self.rng.chance(1, 12) {
                    parts.push(String::new());
                } else {
                    parts.push(self.node(depth - 1).s);
                }
            }
            Node { s: parts.join("|"), atomic: false, repeatable: true, alt: true }
        } else if r < 50 {
            // capture group
            self.opened += 1;
            let g = self.opened;
            self.open_stack.push(g);
            let named = self.has(F_NAMED) && self.rng.chance(1, 4);
            let c = self.node(depth - 1);
            self.open_stack.pop();
            self.closed.push(g);
            let s = if named {
                let name = std::format!("n{}", g);
                self.names.push((g, name.clone()));
                if self.rng.chance(1, 2) {
                    std::format!("(?<{}>{})", name, c.s)
                } else {
                    std::format!("(?P<{}>{})", name, c.s)
                }
            } else {
                std::format!("({})", c.s)
            };
            Node { s, atomic: true, repeatable: true, alt: false }
        } else if r < 68 {
            // quantifier
            let c = self.node(depth - 1);
            if !c.repeatable {
                return c;
            }
            let q = self.quant();
            Node { s: std::format!("{}{}", grp(&c), q), atomic: false, repeatable: true, alt: false }
        } else if r < 74 && self.has(F_ATOMIC) {
            let c = self.node(depth - 1);
            Node { s: std::format!("(?>{})", c.s), atomic: true, repeatable: true, alt: false }
        } else if r < 84 && self.has(F_LOOK) {
            let k = self.rng.below(4);
            if k < 2 {
                let c = self.node(depth - 1);
                let op = if k == 0 { "(?=" } else { "(?!" };
                Node { s: std::format!("{}{})", op, c.s), atomic: true, repeatable: false, alt: false }
            } else {
                self.in_lookbehind += 1;
                let c = self.lookbehind_body(depth - 1);
                self.in_lookbehind -= 1;
                let op = if k == 2 { "(?<=" } else { "(?<!" };
                Node { s: std::format!("{}{})", op, c), atomic: true, repeatable: false, alt: false }
            }
        } else if r < 90 && self.has(F_COND) {
            self.cond(depth)
        } else if r < 93 && self.has(F_FLAGS) {
            let c = self.node(depth - 1);
            let f = *self.rng.pick(&["(?s:", "(?m:", "(?i:", "(?x: ", "(?U:", "(?-i:", "(?-s:", "(?-m:", "(?i-s:", "(?s-m:", "(?-U:", "(?U-i:", "(?:(?i)", "((?i)", "(?:(?s)", "((?m)"]);
            if f == "(?i:" && !self.has(F_CASE) && !self.has(F_FLAGS) {
                return c;
            }
            Node { s: std::format!("{}{})", f, c.s), atomic: true, repeatable: c.repeatable, alt: false }
        } else {
            self.leaf()
        }
    }

    fn leaf(&mut self) -> Node {
        let r = self.rng.below(100);
        if r < 14 && self.has(F_BACKREF) {
            let selfref = self.has(F_SELFREF) && !self.open_stack.is_empty() && self.rng.chance(1, 3);
            if selfref {
                let g = *self.rng.pick(&self.open_stack.clone());
                return Node { s: std::format!("\\{}", g), atomic: true, repeatable: true, alt: false };
            }
            if !self.closed.is_empty() {
                let g = *self.rng.pick(&self.closed.clone());
                if let Some((_, name)) = self.names.iter().find(|(n, _)| *n == g) {
                    return Node { s: std::format!("\\k<{}>", name), atomic: true, repeatable: true, alt: false };
                }
                if self.names.is_empty() {
                    return Node { s: std::format!("\\{}", g), atomic: true, repeatable: true, alt: false };
                }
            }
        }
        if r >= 14 && r < 17 && self.has(F_KEEP) {
            return atom("\\K");
        }
        if r >= 17 && r < 20 && self.has(F_CONTG) && self.in_lookbehind == 0 {
            return atom("\\G");
        }
        if r >= 20 && r < 23 && self.has(F_COND) && !self.closed.is_empty() {
            let g = *self.rng.pick(&self.closed.clone());
            return Node { s: std::format!("(?({}))", g), atomic: true, repeatable: true, alt: false };
        }
        self.atom()
    }

    fn lookbehind_body(&mut self, depth: usize) -> String {
        // mostly fixed-length bodies; sometimes anything (rejection by the compiler is itself checked in C13)
        if self.rng.chance(1, 8) {
            return self.node(depth.min(1)).s;
        }
        let nalt = 1 + self.rng.below(2);
        let mut alts = Vec::new();
        for _ in 0..nalt {
            let n = self.rng.below(3);
            let mut s = String::new();
            for _ in 0..n {
                let a = if depth > 0 && self.rng.chance(1, 5) {
                    self.opened += 1;
                    let g = self.opened;
                    let inner = self.atom();
                    self.closed.push(g);
                    Node { s: std::format!("({})", inner.s), atomic: true, repeatable: true, alt: false }
                } else {
                    self.atom()
                };
                s.push_str(&a.s);
            }
            alts.push(s);
        }
        alts.join("|")
    }

    fn cond(&mut self, depth: usize) -> Node {
        let by_group = !self.closed.is_empty() && self.rng.chance(1, 2);
        let c = if by_group {
            let g = *self.rng.pick(&self.closed.clone());
            std::format!("{}", g)
        } else {
            let n = self.node(depth - 1);
            // a condition that starts with a digit, ' or < would be read as a group reference
            if n.s.starts_with(|ch: char| ch.is_ascii_digit() || ch == '\'' || ch == '<') {
                std::format!("(?:{})", n.s)
            } else {
                n.s
            }
        };
        let t = self.node(depth - 1);
        let t = cat_operand(&t);
        if t.is_empty() {
            return self.leaf();
        }
        if self.rng.chance(2, 3) {
            let f = self.node(depth - 1);
            Node { s: std::format!("(?({}){}|{})", c, t, cat_operand(&f)), atomic: true, repeatable: true, alt: false }
        } else {
            Node { s: std::format!("(?({}){})", c, t), atomic: true, repeatable: true, alt: false }
        }
    }
}

pub fn random_pattern(rng: &mut Rng, feats: u32, max_depth: usize) -> String {
    let depth = 1 + rng.below(max_depth);
    let mut g = Gen {
        rng,
        feats,
        opened: 0,
        closed: Vec::new(),
        open_stack: Vec::new(),
        in_lookbehind: 0,
        names: Vec::new(),
    };
    g.node(depth).s
}

// ---------------------------------------------------------------------------
// context x filler

pub fn contexts(feats: u32) -> Vec<&'static str> {
    let mut v = vec!["H", "aHb", "(H)\\1", "(?:H)*c", "(H|b)\\1", "(?:H){2}", "(?:H)+?b"];
    if feats & F_ATOMIC != 0 {
        v.push("(?>H)a");
        v.push("(?:(?>H)){2}");
    }
    if feats & F_LOOK != 0 {
        v.push("(?=H)a");
        v.push("(?!H).");
        v.push("(?<=H)b");
        v.push("(?<!H).");
        v.push("(?=(H))\\1");
        v.push("(?=(H)(?=))\\1c");
        v.push("(?=(H)\\b)\\1");
        v.push("(?<=(H)(?=))c\\1");
        v.push("(?=(?>)(H)|(b))\\1");
        v.push("(?:(?=(H)).)+");
        v.push("(?:(?=(H))\\w)*b");
    }
    if feats & F_COND != 0 {
        v.push("(H)?(?(1)a|b)");
        v.push("(?(H)a|b)");
        v.push("(?:(?(H)a|b))*");
        // a branch with several ways to match, followed by more pattern
        v.push("(?(a)H)b");
        v.push("(?(a)|H)b");
        v.push("(a)?b(?(1)c|H)b");
        v.push("(?:(a)|b)(?(1)H|c)c");
    }
    if feats & F_ATOMIC != 0 {
        // a capture written between two pending alternatives inside an atomic scope that is
        // abandoned afterwards
        v.push("(?>b?(H)c?)a|.*");
        v.push("(?>b?(H)c?(?=))a|.*");
        v.push("(?>b??(H)c*\\b)a|.{0,3}");
        v.push("(?:(?>b?(H)c?(?=))a|.)*");
        v.push("(?>(?:b|)(H)(?:c|)(?=))a|(?s:.)*");
        // constant-size atomic body whose alternatives set different groups, then a
        // capture-dependent continuation
        v.push("(?>(H)|(H))\\2");
        v.push("(?>(H)b|H(b))\\2c|.*");
        // nested atomic groups entered, abandoned and entered again
        v.push("(?>(?>(?>a)))(H)(?>c)|ab.?");
        v.push("(?>(?>a))(H)(?>(?>c))|a.*");
    }
    if feats & F_KEEP != 0 {
        v.push("a\\KH");
    }
    v
}

pub fn fill(ctx: &str, filler: &str, filler_is_alt: bool) -> String {
    // the hole is always inside a group or at top level except in "aHb" / "a\KH"
    let needs_group = filler_is_alt && (ctx == "aHb" || ctx == "a\\KH");
    if needs_group {
        ctx.replace("H", &std::format!("(?:{})", filler))
    } else {
        ctx.replace("H", filler)
    }
}

/// Compile-decision matrix: the compiler's choices depend on (context that passes
/// hard = false to its body) x (repeat lowering) x (hard element followed by an easy,
/// variable-size tail).  Every combination is a corpus item.
pub fn compile_matrix(full: bool) -> Vec<String> {
    let ctxs: &[&str] = if full { &["(?>X)", "(?=X)a", "(?!X)a", "(X)", "X", "(?>X)b", "Xb", "(?:X)*(?!a)", "(?:X)+c", "(?:X|c)\\b"] } else { &["(?>X)", "(?=X)a", "(?!X)a", "(X)", "X", "(?>X)b", "Xb", "(?:X)*(?!a)"] };
    let quants: &[&str] = if full { &["{2}", "{1,2}", "{2,}", "*", "+", "?", "*?", "{2}?", "{1,2}?"] } else { &["{2}", "{1,2}", "*", "+", "?", "{2}?", "{1,2}?", "{2,}"] };
    let hards: &[&str] = if full { &["(?=a)", "(?>a)", "\\b", "(?!b)", "(?<=a)", "(a)"] } else { &["(?=a)", "(?>a)", "\\b", "(?!b)", "(?<=a)"] };
    let tails: &[&str] = if full { &["a?", "a*", "a*b?", "(?:a|ab)", "[ab]+?", "(?:ab|a)"] } else { &["a?", "a*b?", "(?:a|ab)", "(?:ab|a)"] };
    let mut out = Vec::new();
    for c in ctxs.iter() {
        for q in quants.iter() {
            for h in hards.iter() {
                for t in tails.iter() {
                    out.push(c.replace("X", &std::format!("(?:{}{}){}", h, t, q)));
                }
            }
        }
    }
    // the same bodies without a quantifier, and with the hard element last
    for c in ctxs.iter() {
        for h in hards.iter() {
            for t in tails.iter() {
                out.push(c.replace("X", &std::format!("{}{}", h, t)));
                out.push(c.replace("X", &std::format!("{}{}", t, h)));
                out.push(c.replace("X", &std::format!("{}{}b", t, h)));
            }
        }
    }
    out
}

/// Capture groups that are written by a delegate (easy group next to a hard element) or by
/// VM saves, inside counted and unbounded repeats whose continuation fails, with a
/// fall-back alternative: the slots of an abandoned attempt must be restored (seed S6-C03).
pub fn capture_restore(with_hard: bool) -> Vec<String> {
    let bodies = ["(a)", "(a|b)", "(a)(b)?", "(a?)"];
    let hards: &[&str] = if with_hard { &["", "(?=)", "\\b?", "(?!c)"] } else { &[""] };
    let quants = ["{2}", "{2,}", "+", "{1,2}"];
    let tails = ["b", "c"];
    let falls = ["|a", "|aa", ""];
    let mut out = Vec::new();
    for b in bodies.iter() {
        for h in hards.iter() {
            for q in quants.iter() {
                for t in tails.iter() {
                    for f in falls.iter() {
                        out.push(std::format!("(?:{}{}){}{}{}", b, h, q, t, f));
                    }
                }
            }
        }
    }
    out
}

/// Several capture groups inside one delegated piece, some of which do not participate
/// (slot mapping between the delegate's groups and the VM's; seed S7-C02).
pub fn delegate_groups() -> Vec<String> {
    let bodies = ["(?:(a)|(b))(c)", "(a)?(b)", "(a)(b)?(c)", "(a)?(b)?(c)", "((a)|b)(c)", "(?:(a)|(b)|(c))", "(a)?(?:(b)|(c))", "(a|(b))(c)?(a)"];
    let hosts = ["X(?!d)", "X\\b", "(?=)X", "(?>X)", "(?=X)[abc]", "(?!X)?X(?=)", "(?:X(?=))+", "X(?=)|(a)"];
    let mut out = Vec::new();
    for b in bodies.iter() {
        for h in hosts.iter() {
            out.push(h.replace("X", b));
        }
    }
    out
}

/// A text anchor in a place where it does not anchor the whole pattern: optional or repeated
/// groups, one arm of an alternation, inside look-arounds (start-position shortcuts that treat
/// such a pattern as anchored; seeds S8-C01b, S9-C04).  `hard` makes the pattern VM-compiled.
pub fn start_anchor_shapes(hard: &str) -> Vec<String> {
    let mut out = Vec::new();
    for x in ["^", "\\A", "(?m:^)"].iter() {
        for shape in ["(?:Xa)?b", "(X)?b", "(?:Xa)*b", "(?:Xa){0,2}b", "(?:Xa|b)c", "(?:X|a)b", "(?!X)a", "(?=X)a", "(?!Xa).", "(?>Xa)?b", "(?:Xa)??b", "(?:(?:X)a|b)+", "a?(?:X)b", "(?<=X)a|b"].iter() {
            out.push(std::format!("{}{}", shape.replace("X", x), hard));
        }
    }
    out
}

/// Every escape, assertion and class form the parser knows, each in a few standard
/// positions (the small-pattern families are built from a handful of atoms only).
pub fn ingredient_sweep(common_syntax: bool) -> Vec<String> {
    let consuming = ["\\d", "\\D", "\\s", "\\S", "\\w", "\\W", "\\h", "\\H", "\\x41", "\\x{e9}", "\\pL", "\\p{Greek}", "\\PL", "\\P{Ll}", "\\a", "\\f", "\\n", "\\r", "\\t", "\\v", "\\e",
        "\\ ", ".", "(?s:.)", "[^a]", "[a-c&&[^b]]", "[[:alpha:]]", "[\\d\\-a]", "[\\n\\r]", "\\u00e9", "\\U000000e9", "(?i:k)", "(?i:\\x{17f})"];
    let zero = ["\\A", "\\z", "\\Z", "\\b", "\\B", "\\<", "\\>", "^", "$", "(?m:^)", "(?m:$)"];
    let mut out = Vec::new();
    let hard = if common_syntax { "\\b" } else { "(?=)" };
    for x in consuming.iter() {
        if common_syntax && (x.contains("\\h") || x.contains("\\H") || x.contains("\\e") || x.contains("\\u") || x.contains("\\U")) {
            continue;
        }
        for ctx in ["X@", "@X", "aX@", "X+?b@", "X{2}@", "(?:X|a)@", "(X)?b@"].iter() {
            out.push(ctx.replace("X", x).replace("@", hard));
        }
        if !common_syntax {
            for ctx in ["(?<=X)a", "(?<!X)a", "(?=X)", "(X)\\1", "(?>X|a)b"].iter() {
                out.push(ctx.replace("X", x));
            }
        }
    }
    for x in zero.iter() {
        if common_syntax && (*x == "\\Z" || *x == "\\<" || *x == "\\>") {
            continue;
        }
        for ctx in ["X@", "Xa@", "aX@", "a?X@", "(?:X|a)b@", "X.@"].iter() {
            out.push(ctx.replace("X", x).replace("@", hard));
        }
        if !common_syntax {
            for ctx in ["(?!X)a", "(?<=aX)", "(?=X)a?"].iter() {
                out.push(ctx.replace("X", x));
            }
        }
    }
    out
}

/// Lazy and greedy bounded repeats with hi - lo >= 2 over bodies that match several lengths
/// (an unrolling that gets the priority order of a lazy repeat wrong; seed S10-C01).
pub fn bounded_repeats() -> Vec<String> {
    let mut out = Vec::new();
    for body in ["ab?", "a|ab|bc", "a?", "(a|ab)", "a|b|ab"].iter() {
        for q in ["{0,2}?", "{1,3}?", "{2,4}?", "{0,2}", "{1,3}", "{0,3}?"].iter() {
            for tail in ["(?=b|$)", "(?=c|$)", "(?!a)", "\\b"].iter() {
                out.push(std::format!("(?:{}){}{}", body, q, tail));
            }
        }
    }
    out.push("(?U)(?:ab?){0,2}(?=b|$)".to_string());
    out
}

/// A greedy loop over a body that can match empty, VM-compiled, inside a positive look-ahead
/// that an enclosing loop re-enters (the look-ahead rewinds the position but keeps what its
/// body saved; seed S10-C20).  F1 class: compared on spans only (C01).
pub fn empty_loops_in_lookahead() -> Vec<String> {
    let mut out = Vec::new();
    for body in ["(?:a|(?=))*", "(a|\\1)*", "(?:a?(?=))*", "(?:a|\\b)*", "(?:(?!b)a?)*"].iter() {
        for outer in ["(?:(?=X)T)+", "(?:(?=X)T){2}", "(?:(?=X)T)*b", "(?:(?=X)T)+?c"].iter() {
            for t in ["\\w", "b?", "."].iter() {
                out.push(outer.replace("X", body).replace("T", t));
            }
        }
    }
    out
}

/// Thirty-three and more capture groups around an atomic scope with a failing continuation
/// (anything that keeps per-slot state in a machine word; seed S10-C05).
pub fn many_groups() -> Vec<String> {
    let g32: String = "()".repeat(32);
    let g64: String = "()".repeat(64);
    vec![
        std::format!("(?>((?:|\\1){}(a)))b|a", g32),
        std::format!("(?>(?:|a){}(a))b|a", g32),
        std::format!("(?=(?:|a){}(a))b|a", g32),
        std::format!("(?>(?:|a){}(a))b|a", g64),
        std::format!("{}(?>(a)|(b))c|a", g32),
        std::format!("{}(a)\\33(?=)", g32),
    ]
}

/// Commits that merge many log entries although the text is short: counted repeats over
/// groups that can match empty, inside an atomic scope whose continuation fails (seed
/// S7-C20: a merge that is only wrong beyond 32 entries).
pub fn wide_cut() -> Vec<String> {
    let mut out = Vec::new();
    for n in [12usize, 17, 20].iter() {
        out.push(std::format!("(?>(?:()|x){{{}}})!|", n));
        out.push(std::format!("(?>(?:(a?)|x){{{}}})!|a", n));
        out.push(std::format!("(?:(?>(?:(a?)(b?)|x){{{}}})c|a)", n));
        out.push(std::format!("(?>(?:(?=(a?))|x){{{}}})!|a?", n));
        out.push(std::format!("(?=(?:(a?)|x){{{}}})!|a", n));
        out.push(std::format!("(?((?:(a?)|x){{{}}})!|a)", n));
    }
    out.push("(?>(()|x)(()|x)(()|x)(()|x)(()|x)(()|x)(()|x)(()|x)(()|x)(()|x))!|".to_string());
    // large counted repeats over bodies that can match empty: many pending alternatives with
    // the same (pc, ix), told apart only by the repeat counter (seed S11-C07)
    for p in ["(?:a?){0,20}(?!b)", "(?:a?){0,20}\\b", "(a?){0,30}\\1", "(?:a??){30}(?=)", "(?:|a){14}(?!b)", "(?:a*?){40}(?!b)", "(?:(?:(?:a??){0,2}){0,2}){0,2}(?!b)", "(?:a?){25}(?=)b?", "(?:(?=)|a){0,16}c?"].iter() {
        out.push(p.to_string());
    }
    out.push("(?>(?:(a?)|x)+?(?:(a?)|x){12})!|a".to_string());
    out
}

/// Alternations over words of different lengths in every order, followed by a
/// continuation that can force the engine back into the alternation.
pub fn alt_order(common_syntax: bool) -> Vec<String> {
    let words = ["a", "ab", "abc", "b", ""];
    let conts: &[&str] = if common_syntax { &["\\b", "\\Bb", "\\b.", "b\\b"] } else { &["b", "bc", "c", "\\b", "(?=)b", "(?=)bc", "\\1"] };
    let mut out = Vec::new();
    for (i, x) in words.iter().enumerate() {
        for (j, y) in words.iter().enumerate() {
            if i == j {
                continue;
            }
            for k in conts.iter() {
                out.push(std::format!("({}|{}){}", x, y, k));
                if *k != "\\1" {
                    out.push(std::format!("c(?:{}|{}){}", x, y, k));
                }
            }
            for (l, z) in words.iter().enumerate() {
                if l == i || l == j || l > 2 {
                    continue;
                }
                for k in conts.iter().take(3) {
                    out.push(std::format!("({}|{}|{}){}", x, y, z, k));
                }
            }
        }
    }
    out
}

// ---------------------------------------------------------------------------
// fixed witnesses (known findings and regression shapes), always run

pub const WITNESSES: [&str; 94] = [
    // round 11: a literal run whose characters differ in case-sensitivity, compiled as one unit
    "(?<=a(?i)b)c", "(?=a(?i)b).", "(?>a(?i)b)c(?=)", "(?i)(?<=\\.a)x", "(?<!a(?i:b))c", "(?<=(?i)a(?-i)b)c", "(?i)(?=\\.a).", "(?>\\.(?i)a)b(?!c)",
    // round 10: titlecase / special-folding literals under (?i) beside a hard element; group
    // tests and backreferences spelled as a number between name delimiters or relative
    "(?i)\u{1c5}(?=)", "(?i)(?=)\u{1c5}", "(?i:\u{1c8})b(?=)", "(?i)((?=)\u{1c5})", "(?i)\u{1c5}", "(?i)a\u{1c5}(?!b)", "(?i)\u{17f}(?=)", "(?i)\u{212a}(?!b)", "(?:(a)|\\w)(?(<-1>)b|c)", "(?:a|(a))(?(<1>)b|c)", "(?:(a)|.)(?('1')b|c)", "(?:(a)|.)(?!\\k<-1>)", "(?:(a)b|ab)(?(<1>)c|d)", "(?:(a)|.)\\k<1>?(?(<-1>)b|c)",
    // round 8: an anchor inside a look-around at the very start (start-position shortcuts),
    // lazy and possessive exact counts
    "(?!\\A)a", "(?!^)a", "(?!^a).", "(?:(?!^)b|(?!^b)c)", "((?!\\Aa)[ab])\\1", "(?=\\A)a", "(?<!^)a(?=)", "(?!$)a?(?=)", "(?!\\z).(?=)", "(?<=\\A)a|(?!\\A)b", "(x)?(?:a){1}?", "(?:a){1}?b", "(a|b){1}?c", "a{1}?(?=)", "(?:a{1}?){2}", "(a){1}?\\1", "(?:ab){1}?(?!c)", "a{1}+b", "(?:a|ab){2}+c", "(?:a+){2}+a",
    "((a)|)\\1*b",
    "((a)*)\\1+b",
    "((a)?)\\1*b",
    "(?:(?:ab?){2})*(?!a)",
    "(?:(?:a|ab){2}b?){1,2}(?=c)",
    "(?>(a)b|a(b))\\2c|abbc",
    "(?>(a)|(a))\\2",
    "(?>(?>(?>a)))(b)(?>z)|ab",
    "a|b|c",
    "(a)\\1|b(?=c)|c",
    "(?m)(b)\\n^(?!\\1)",
    "(?m)(b?)\\n^\\1",
    "(?m)(\\n)+^(?:\\1\\1)?",
    "(?m)(a?)$\\n\\1",
    "(?:a|(a))\\1",
    "(b|(b))\\2c",
    "(?:.|(a))\\1",
    "(?:(?=(\\w+))\\w)+",
    "(?:(?=(a*)).)+",
    "(?:(?=(\\w)(\\w*)(\\d))\\w)+",
    "(a)((b)\\3)",
    "((a)\\2)",
    "(?=(a|ab)(?=))\\1c",
    "(?=(a|ab))\\1c",
    "(?=(?>)(a|ab))\\1c",
    "(?=(a*)\\b)\\1b",
    "(?<=(a)|(.a))\\b\\2?c",
    "(?=(a+?)(?=))\\1b",
    "(a|ab)(c|bcd)\\1",
    "(a*)+?b(?!c)\\1",
    "(?:(?=(\\1?a))aaa)+",
    "(?:(?(a)b))*",
    "a|(?<=\\Ka)b",
    "(?((?(b)a))b|a)",
    "(a)\\1",
    "(?:(?>(a)|b)){2}",
    "(?:(a)|b){2}",
    "(a*)*\\1",
    "(?<=a|bb)c",
    "(?<!a|bb)c",
    "(?>a+)ab",
    "(?=(a+))a*b\\1",
    "\\b\\w+\\b(?=.)",
    "(.)\\1",
    "é(?<=é)a",
    "(?<=€)a|\\x{1F600}",
    "a(?=b\\K)",
    "(?m:^)a$",
    "(a|b)*?c\\1",
    "(?:a|(b))+\\1",
    "(x)?(?(1)a|b)",
    "(?i:a)(b)\\1",
];

/// Unbounded repeats over a body that can match empty (finding class F1): left out of
/// the exploration as the properties say, probed by these fixed witnesses instead.
pub const F1_WITNESSES: [&str; 14] = [
    "(a*)*\\1",
    "(a*)+\\1",
    "(a|b*)*\\1",
    "(?:a?)*?\\b",
    "(\\b)*",
    "(\\B)*",
    "(?:\\b|(a)){2,}",
    "(a?)*?\\1b",
    "(?:(a)|b*)*\\1",
    "(a*?)*\\1",
    "(?>(a*)*)\\1",
    "(?=(a*)*)\\1",
    "((?:a?)*)\\1",
    "(a*)*+\\1",
];

pub fn work_list(cfg: &RunCfg) -> WorkList {
    if let Some(p) = &cfg.only_pattern {
        let gen = if cfg.prop == "C01" || cfg.prop == "C04" { "f1-witness" } else { "cmdline" };
        return WorkList { fixed: vec![Item::new(p, gen)], random_enabled: false, feats: 0, max_depth: 0 };
    }
    crate::props::work_list(cfg)
}

pub fn random_item(cfg: &RunCfg, w: &WorkList, k: usize) -> Item {
    let mut rng = Rng::new(cfg.seed.wrapping_mul(1_000_003).wrapping_add(k as u64).wrapping_add(17));
    crate::props::random_item(cfg, w, &mut rng, k)
}
