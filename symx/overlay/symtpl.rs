//! String abstraction for the *template scanner* (`expand.rs`: `Expander::exec`, `check`,
//! `escape`; `parse.rs`: `parse_id`, `parse_decimal`).  The rewrite rules T1.. of gen.py
//! replace `&str` by `&S, S: TStr` in their signatures; the bodies are compiled from the
//! repository's text.  With `S = str` every method below forwards to the std method of the
//! same name; with `S = SymStr` the characters are z3 bit-vector variables and every test on
//! them is a solver decision.
//!
//! std functions that are *modelled* for the symbolic side (each validated on every explored
//! path by the concrete re-run with `S = str`):
//!   * `str::chars` / `char_indices` / `starts_with` / `contains`  (UTF-8 decoding over the layout)
//!   * `str::replace(char, &str)`  (per-character substitution)
//!   * `usize::from_str_radix(_, 10)` / `str::parse::<usize>`  (optional `+`, ASCII digits,
//!     decimal value; numbers at or above `NUM_THRESHOLD` are represented by one instance)
//!   * `char::is_alphanumeric` (class table computed from std at start-up), `is_ascii_digit`
//!   * a group name handed to `Captures::name` / `HashMap::contains_key` is compared with the
//!     names of the regex under test; a name equal to none of them is represented by the
//!     smallest instance under the path condition
//!
//! This file is part of /verif (overlay), not of the repository.

use alloc::borrow::{Borrow, Cow, ToOwned};
use alloc::string::{String, ToString};
use alloc::vec::Vec;
use core::cell::RefCell;
use core::fmt;
use core::ops::{Index, RangeFrom};

use crate::engine;
use crate::symtext::{cp_len, ByteLike, Cls, LitLike, SymByte, SymStr, Text};

pub const ALNUM_CLS_ID: usize = 7001;
/// class of the repository's `parse::is_id_char`, tabulated by calling it on every code point
pub const ID_CHAR_CLS_ID: usize = 7002;

/// The set of characters a pure predicate of the repository accepts, tabulated by calling
/// the real function on every code point ("precomputed static table").
pub fn tabulate(id: usize, f: fn(char) -> bool) -> Cls {
    let mut ranges: Vec<(u32, u32)> = Vec::new();
    let mut start: Option<u32> = None;
    for c in 0..=0x10FFFFu32 {
        let yes = char::from_u32(c).map_or(false, f);
        match (yes, start) {
            (true, None) => start = Some(c),
            (false, Some(s)) => {
                ranges.push((s, c - 1));
                start = None;
            }
            _ => {}
        }
    }
    if let Some(s) = start {
        ranges.push((s, 0x10FFFF));
    }
    Cls { id, ranges }
}

std::thread_local! {
    /// group names of the regex under test (for `t_conc`)
    pub static KNOWN_NAMES: RefCell<Vec<String>> = RefCell::new(Vec::new());
    /// numbers >= this behave alike (no such group): `Captures::get(i)` is `None` for `i >= len`
    pub static NUM_THRESHOLD: core::cell::Cell<usize> = core::cell::Cell::new(0);
}

/// The class `char::is_alphanumeric`, from the std this crate is compiled with.
pub fn alnum_class() -> Cls {
    let mut ranges: Vec<(u32, u32)> = Vec::new();
    let mut start: Option<u32> = None;
    for c in 0..=0x10FFFFu32 {
        let yes = char::from_u32(c).map_or(false, |ch| ch.is_alphanumeric());
        match (yes, start) {
            (true, None) => start = Some(c),
            (false, Some(s)) => {
                ranges.push((s, c - 1));
                start = None;
            }
            _ => {}
        }
    }
    if let Some(s) = start {
        ranges.push((s, 0x10FFFF));
    }
    Cls { id: ALNUM_CLS_ID, ranges }
}

std::thread_local! {
    static ALNUM: Cls = alnum_class();
}

// ---------------------------------------------------------------------------
// characters

pub trait TChar: Copy + PartialEq<char> + fmt::Display {
    fn from_char(c: char) -> Self;
    /// a pure predicate of the repository on this character (`cls` = its tabulated class)
    fn test(self, f: fn(char) -> bool, cls: usize) -> bool;
    fn is_alphanumeric(self) -> bool;
    fn is_ascii_digit(self) -> bool;
}

impl TChar for char {
    #[inline]
    fn from_char(c: char) -> char {
        c
    }
    #[inline]
    fn test(self, f: fn(char) -> bool, _cls: usize) -> bool {
        f(self)
    }
    #[inline]
    fn is_alphanumeric(self) -> bool {
        char::is_alphanumeric(self)
    }
    #[inline]
    fn is_ascii_digit(self) -> bool {
        char::is_ascii_digit(&self)
    }
}

/// A character of a symbolic string: concrete, or the `w` variable bytes starting at `b[0]`.
#[derive(Copy, Clone, Debug)]
pub enum SymCh {
    Conc(char),
    Var([SymByte; 4], u8),
}

pub const MARK_BASE: u32 = 0xF0000;

impl SymCh {
    fn from_bytes(b: &[SymByte]) -> SymCh {
        let mut conc: Vec<u8> = Vec::new();
        for x in b {
            if let Some(v) = x.concrete() {
                conc.push(v);
            }
        }
        if conc.len() == b.len() {
            let c = core::str::from_utf8(&conc).ok().and_then(|s| s.chars().next()).expect("concrete bytes of a symbolic string are UTF-8");
            return SymCh::Conc(c);
        }
        assert!(conc.is_empty(), "a character is either concrete or variable");
        let mut a = [SymByte::conc(0); 4];
        a[..b.len()].copy_from_slice(b);
        SymCh::Var(a, b.len() as u8)
    }
}

impl PartialEq<char> for SymCh {
    fn eq(&self, c: &char) -> bool {
        match self {
            SymCh::Conc(x) => x == c,
            SymCh::Var(b, w) => {
                let mut buf = [0u8; 4];
                let e = c.encode_utf8(&mut buf).as_bytes();
                if e.len() != *w as usize {
                    return false;
                }
                let parts: Vec<String> = (0..e.len()).map(|i| alloc::format!("(= {} #x{:02x})", b[i].term(), e[i])).collect();
                let t = if parts.len() == 1 { parts[0].clone() } else { alloc::format!("(and {})", parts.join(" ")) };
                engine::decide(t)
            }
        }
    }
}

impl fmt::Display for SymCh {
    /// A variable character is written as a private-use marker that names its bytes; the
    /// output is decoded back into symbolic bytes by `SymStr::decode_output`.
    fn fmt(&self, f: &mut fmt::Formatter<'_>) -> fmt::Result {
        match self {
            SymCh::Conc(c) => write!(f, "{}", c),
            SymCh::Var(b, w) => {
                let k = (b[0].0 - 256) as u32;
                let m = char::from_u32(MARK_BASE + k * 8 + *w as u32).expect("marker");
                write!(f, "{}", m)
            }
        }
    }
}

impl TChar for SymCh {
    fn from_char(c: char) -> SymCh {
        SymCh::Conc(c)
    }
    fn test(self, f: fn(char) -> bool, cls: usize) -> bool {
        match self {
            SymCh::Conc(c) => f(c),
            SymCh::Var(b, w) => engine::decide(alloc::format!("(cls{}_{} {})", cls, w, crate::symtext::cp_term(&b[..w as usize]))),
        }
    }
    fn is_alphanumeric(self) -> bool {
        match self {
            SymCh::Conc(c) => c.is_alphanumeric(),
            SymCh::Var(b, w) => engine::decide(alloc::format!("(cls{}_{} {})", ALNUM_CLS_ID, w, crate::symtext::cp_term(&b[..w as usize]))),
        }
    }
    fn is_ascii_digit(self) -> bool {
        match self {
            SymCh::Conc(c) => c.is_ascii_digit(),
            SymCh::Var(b, w) => w == 1 && b[0] >= b'0' && b[0] <= b'9',
        }
    }
}

// ---------------------------------------------------------------------------
// patterns of `starts_with`

pub enum PatKind<'a> {
    Char(char),
    Str(&'a str),
}

pub trait TPat {
    fn kind(&self) -> PatKind<'_>;
}

impl TPat for char {
    fn kind(&self) -> PatKind<'_> {
        PatKind::Char(*self)
    }
}

impl<'b> TPat for &'b str {
    fn kind(&self) -> PatKind<'_> {
        PatKind::Str(self)
    }
}

// ---------------------------------------------------------------------------
// strings

pub trait TCharsAsStr<'a, S: ?Sized> {
    fn as_str(&self) -> &'a S;
}

pub trait TStr: Text + ToOwned + Index<RangeFrom<usize>, Output = Self> {
    type Ch: TChar;
    type Chars<'a>: Iterator<Item = Self::Ch> + TCharsAsStr<'a, Self>
    where
        Self: 'a;
    type CharIndices<'a>: Iterator<Item = (usize, Self::Ch)>
    where
        Self: 'a;

    fn chars(&self) -> Self::Chars<'_>;
    fn char_indices(&self) -> Self::CharIndices<'_>;
    fn starts_with<P: TPat>(&self, p: P) -> bool;
    fn contains(&self, c: char) -> bool;
    fn replace(&self, c: char, to: &str) -> <Self as ToOwned>::Owned;
    fn parse(&self) -> Result<usize, ()>;
    fn from_str_radix(s: &Self, radix: u32) -> Result<usize, ()>;
    /// the string as a key for name look-ups
    fn t_conc(&self) -> Cow<'_, str>;
    /// output written through `Display` of `Self::Ch` -> a string of this kind
    fn decode_output(out: &str) -> <Self as ToOwned>::Owned;
    /// `a == b` (a solver decision for symbolic strings)
    fn same(a: &Self, b: &Self) -> bool;
    fn owned_from_str(s: &str) -> <Self as ToOwned>::Owned;
    fn push_owned(dst: &mut <Self as ToOwned>::Owned, s: &Self);
}

impl<'a> TCharsAsStr<'a, str> for core::str::Chars<'a> {
    #[inline]
    fn as_str(&self) -> &'a str {
        core::str::Chars::as_str(self)
    }
}

impl TStr for str {
    type Ch = char;
    type Chars<'a> = core::str::Chars<'a>;
    type CharIndices<'a> = core::str::CharIndices<'a>;

    #[inline]
    fn chars(&self) -> core::str::Chars<'_> {
        str::chars(self)
    }
    #[inline]
    fn char_indices(&self) -> core::str::CharIndices<'_> {
        str::char_indices(self)
    }
    #[inline]
    fn starts_with<P: TPat>(&self, p: P) -> bool {
        match p.kind() {
            PatKind::Char(c) => str::starts_with(self, c),
            PatKind::Str(s) => str::starts_with(self, s),
        }
    }
    #[inline]
    fn contains(&self, c: char) -> bool {
        str::contains(self, c)
    }
    #[inline]
    fn replace(&self, c: char, to: &str) -> String {
        str::replace(self, c, to)
    }
    #[inline]
    fn parse(&self) -> Result<usize, ()> {
        str::parse::<usize>(self).map_err(|_| ())
    }
    #[inline]
    fn from_str_radix(s: &str, radix: u32) -> Result<usize, ()> {
        usize::from_str_radix(s, radix).map_err(|_| ())
    }
    fn t_conc(&self) -> Cow<'_, str> {
        Cow::Borrowed(self)
    }
    fn decode_output(out: &str) -> String {
        out.to_string()
    }
    fn same(a: &str, b: &str) -> bool {
        a == b
    }
    fn owned_from_str(s: &str) -> String {
        s.to_string()
    }
    fn push_owned(dst: &mut String, s: &str) {
        dst.push_str(s);
    }
}

// ---- symbolic ----------------------------------------------------------------

#[derive(Clone, Debug, Default)]
pub struct SymString(pub Vec<SymByte>);

impl Borrow<SymStr> for SymString {
    fn borrow(&self) -> &SymStr {
        SymStr::new(&self.0)
    }
}

impl core::ops::Deref for SymString {
    type Target = SymStr;
    fn deref(&self) -> &SymStr {
        SymStr::new(&self.0)
    }
}

impl ToOwned for SymStr {
    type Owned = SymString;
    fn to_owned(&self) -> SymString {
        SymString(self.raw().to_vec())
    }
}

impl Index<RangeFrom<usize>> for SymStr {
    type Output = SymStr;
    fn index(&self, r: RangeFrom<usize>) -> &SymStr {
        let n = self.raw().len();
        if r.start > n {
            panic!("slice index out of range: {}.. (len {})", r.start, n);
        }
        &self[r.start..n]
    }
}

pub struct SymChars<'a> {
    s: &'a SymStr,
}

impl<'a> Iterator for SymChars<'a> {
    type Item = SymCh;
    fn next(&mut self) -> Option<SymCh> {
        let raw = self.s.raw();
        if raw.is_empty() {
            return None;
        }
        let w = cp_len(raw[0]);
        let c = SymCh::from_bytes(&raw[..w]);
        self.s = SymStr::new(&raw[w..]);
        Some(c)
    }
}

impl<'a> TCharsAsStr<'a, SymStr> for SymChars<'a> {
    fn as_str(&self) -> &'a SymStr {
        self.s
    }
}

pub struct SymCharIndices<'a> {
    s: &'a SymStr,
    off: usize,
}

impl<'a> Iterator for SymCharIndices<'a> {
    type Item = (usize, SymCh);
    fn next(&mut self) -> Option<(usize, SymCh)> {
        let raw = self.s.raw();
        if raw.is_empty() {
            return None;
        }
        let w = cp_len(raw[0]);
        let c = SymCh::from_bytes(&raw[..w]);
        let at = self.off;
        self.s = SymStr::new(&raw[w..]);
        self.off += w;
        Some((at, c))
    }
}

fn digits_value_term(d: &[SymByte]) -> String {
    // 32-bit value of the decimal digits
    let mut t = String::from("#x00000000");
    for b in d {
        t = alloc::format!("(bvadd (bvmul {} #x0000000a) (bvsub ((_ zero_extend 24) {}) #x00000030))", t, b.term());
    }
    t
}

fn sym_from_str_radix10(s: &SymStr) -> Result<usize, ()> {
    let raw = s.raw();
    if raw.is_empty() {
        return Err(());
    }
    let mut i = 0;
    if raw[0] == b'+' {
        if raw.len() == 1 {
            return Err(());
        }
        i = 1;
    }
    for b in &raw[i..] {
        if !(*b >= b'0' && *b <= b'9') {
            return Err(());
        }
    }
    let d = &raw[i..];
    if d.len() > 9 {
        panic!("{}: more than 9 digits", engine::CAP_PANIC);
    }
    if d.iter().all(|b| b.concrete().is_some()) {
        let v: Vec<u8> = d.iter().map(|b| b.concrete().unwrap()).collect();
        return usize::from_str_radix(core::str::from_utf8(&v).unwrap(), 10).map_err(|_| ());
    }
    let t = digits_value_term(d);
    let th = NUM_THRESHOLD.with(|x| x.get());
    for v in 0..th {
        if engine::decide(alloc::format!("(= {} #x{:08x})", t, v)) {
            return Ok(v);
        }
    }
    // a number that names no group: one representative
    let terms: Vec<Result<u8, String>> = d.iter().map(|b| match b.concrete() {
        Some(v) => Ok(v),
        None => Err(b.term()),
    }).collect();
    let m = engine::min_model_fresh(&terms);
    usize::from_str_radix(core::str::from_utf8(&m).map_err(|_| ())?, 10).map_err(|_| ())
}

impl TStr for SymStr {
    type Ch = SymCh;
    type Chars<'a> = SymChars<'a>;
    type CharIndices<'a> = SymCharIndices<'a>;

    fn chars(&self) -> SymChars<'_> {
        SymChars { s: self }
    }
    fn char_indices(&self) -> SymCharIndices<'_> {
        SymCharIndices { s: self, off: 0 }
    }
    fn starts_with<P: TPat>(&self, p: P) -> bool {
        match p.kind() {
            PatKind::Char(c) => match TStr::chars(self).next() {
                Some(ch) => ch == c,
                None => false,
            },
            PatKind::Str(s) => {
                let n = s.len();
                if self.raw().len() < n {
                    return false;
                }
                if n == 0 {
                    return true;
                }
                LitLike::as_bytes(self)[0..n] == *s.as_bytes()
            }
        }
    }
    fn contains(&self, c: char) -> bool {
        for ch in TStr::chars(self) {
            if ch == c {
                return true;
            }
        }
        false
    }
    fn replace(&self, c: char, to: &str) -> SymString {
        let mut out: Vec<SymByte> = Vec::new();
        let mut it = TStr::char_indices(self);
        let raw = self.raw();
        while let Some((at, ch)) = it.next() {
            let w = cp_len(raw[at]);
            if ch == c {
                out.extend(to.as_bytes().iter().map(|b| SymByte::conc(*b)));
            } else {
                out.extend_from_slice(&raw[at..at + w]);
            }
        }
        SymString(out)
    }
    fn parse(&self) -> Result<usize, ()> {
        sym_from_str_radix10(self)
    }
    fn from_str_radix(s: &SymStr, radix: u32) -> Result<usize, ()> {
        assert!(radix == 10);
        sym_from_str_radix10(s)
    }
    fn t_conc(&self) -> Cow<'_, str> {
        let names = KNOWN_NAMES.with(|n| n.borrow().clone());
        for n in names {
            if n.len() == self.raw().len() && (n.is_empty() || LitLike::as_bytes(self)[0..n.len()] == *n.as_bytes()) {
                return Cow::Owned(n);
            }
        }
        let terms: Vec<Result<u8, String>> = self.raw().iter().map(|b| match b.concrete() {
            Some(v) => Ok(v),
            None => Err(b.term()),
        }).collect();
        Cow::Owned(String::from_utf8(engine::min_model_fresh(&terms)).expect("representative name is UTF-8 (layout constraint)"))
    }
    fn decode_output(out: &str) -> SymString {
        let mut v: Vec<SymByte> = Vec::new();
        for c in out.chars() {
            let u = c as u32;
            if u >= MARK_BASE && u < MARK_BASE + 8 * 256 {
                let k = ((u - MARK_BASE) / 8) as usize;
                let w = ((u - MARK_BASE) % 8) as usize;
                for i in 0..w {
                    v.push(SymByte::var(k + i));
                }
            } else {
                let mut buf = [0u8; 4];
                v.extend(c.encode_utf8(&mut buf).as_bytes().iter().map(|b| SymByte::conc(*b)));
            }
        }
        SymString(v)
    }
    fn same(a: &SymStr, b: &SymStr) -> bool {
        if a.raw().len() != b.raw().len() {
            return false;
        }
        if a.raw().is_empty() {
            return true;
        }
        let n = a.raw().len();
        LitLike::as_bytes(a)[0..n] == LitLike::as_bytes(b)[0..n]
    }
    fn owned_from_str(s: &str) -> SymString {
        SymString(s.as_bytes().iter().map(|b| SymByte::conc(*b)).collect())
    }
    fn push_owned(dst: &mut SymString, s: &SymStr) {
        dst.0.extend_from_slice(s.raw());
    }
}

/// The classes an exploration over templates needs.
pub fn template_classes(id_char: fn(char) -> bool) -> Vec<Cls> {
    ID_CHAR.with(|c| {
        let mut g = c.borrow_mut();
        if g.is_none() {
            *g = Some(tabulate(ID_CHAR_CLS_ID, id_char));
        }
    });
    alloc::vec![ALNUM.with(|c| c.clone()), ID_CHAR.with(|c| c.borrow().clone().unwrap())]
}

std::thread_local! {
    static ID_CHAR: RefCell<Option<Cls>> = RefCell::new(None);
}

/// A pure byte predicate of the repository on a possibly symbolic byte: tabulated over all
/// 256 values by calling the real function.
pub fn test_byte<B: ByteLike>(b: B, f: fn(u8) -> bool) -> bool {
    if let Some(v) = b.concrete() {
        return f(v);
    }
    let mut parts: Vec<String> = Vec::new();
    let mut v = 0u16;
    while v < 256 {
        if f(v as u8) {
            let lo = v;
            while v + 1 < 256 && f((v + 1) as u8) {
                v += 1;
            }
            if lo == v {
                parts.push(alloc::format!("(= {} #x{:02x})", b.term(), lo));
            } else {
                parts.push(alloc::format!("(and (bvule #x{:02x} {}) (bvule {} #x{:02x}))", lo, b.term(), b.term(), v));
            }
        }
        v += 1;
    }
    if parts.is_empty() {
        return false;
    }
    engine::decide(alloc::format!("(or false {})", parts.join(" ")))
}
