//! Text abstraction that lets the repository's `vm::run` execute either on a real
//! `&str` (all regex-automata calls are the real ones) or on a symbolic text whose
//! bytes are z3 bit-vector variables (`SymStr`).
//!
//! This file is part of /verif (overlay), not of the repository.

use alloc::string::String;
use alloc::vec::Vec;
use core::cmp::Ordering;
use core::ops::{Index, Range};

use regex_automata::meta::Regex;
use regex_automata::util::look::LookMatcher;
use regex_automata::util::primitives::NonMaxUsize;
use regex_automata::{Anchored, Input};

use crate::engine;

// ---------------------------------------------------------------------------
// bytes

pub trait ByteLike: Copy + PartialEq<u8> + PartialOrd<u8> + PartialEq<Self> {
    fn ge_i8(self, v: i8) -> bool;
    /// SMT term of this byte (8-bit bit-vector)
    fn term(self) -> String;
    fn concrete(self) -> Option<u8>;
}

impl ByteLike for u8 {
    #[inline]
    fn ge_i8(self, v: i8) -> bool {
        (self as i8) >= v
    }
    fn term(self) -> String {
        alloc::format!("#x{:02x}", self)
    }
    fn concrete(self) -> Option<u8> {
        Some(self)
    }
}

/// A byte that is either concrete (< 256) or the z3 variable `b<k>` (256 + k).
#[derive(Copy, Clone, Debug)]
pub struct SymByte(pub u16);

impl SymByte {
    pub fn var(k: usize) -> SymByte {
        SymByte(256 + k as u16)
    }
    pub fn conc(b: u8) -> SymByte {
        SymByte(b as u16)
    }
}

impl ByteLike for SymByte {
    fn ge_i8(self, v: i8) -> bool {
        match self.concrete() {
            Some(b) => (b as i8) >= v,
            None => engine::decide(alloc::format!("(bvsge {} #x{:02x})", self.term(), v as u8)),
        }
    }
    fn term(self) -> String {
        if self.0 < 256 {
            alloc::format!("#x{:02x}", self.0)
        } else {
            alloc::format!("b{}", self.0 - 256)
        }
    }
    fn concrete(self) -> Option<u8> {
        if self.0 < 256 {
            Some(self.0 as u8)
        } else {
            None
        }
    }
}

impl PartialEq<u8> for SymByte {
    fn eq(&self, o: &u8) -> bool {
        match self.concrete() {
            Some(b) => b == *o,
            None => engine::decide(alloc::format!("(= {} #x{:02x})", self.term(), o)),
        }
    }
}

/// byte == byte (both possibly symbolic): code that compares two bytes of the text
impl PartialEq<SymByte> for SymByte {
    fn eq(&self, o: &SymByte) -> bool {
        match (self.concrete(), o.concrete()) {
            (Some(a), Some(b)) => a == b,
            _ => {
                if self.0 == o.0 {
                    return true;
                }
                engine::decide(alloc::format!("(= {} {})", self.term(), o.term()))
            }
        }
    }
}

impl PartialOrd<u8> for SymByte {
    fn partial_cmp(&self, o: &u8) -> Option<Ordering> {
        if self.lt(o) {
            Some(Ordering::Less)
        } else if self.eq(o) {
            Some(Ordering::Equal)
        } else {
            Some(Ordering::Greater)
        }
    }
    fn lt(&self, o: &u8) -> bool {
        match self.concrete() {
            Some(b) => b < *o,
            None => engine::decide(alloc::format!("(bvult {} #x{:02x})", self.term(), o)),
        }
    }
    fn le(&self, o: &u8) -> bool {
        match self.concrete() {
            Some(b) => b <= *o,
            None => engine::decide(alloc::format!("(bvule {} #x{:02x})", self.term(), o)),
        }
    }
    fn gt(&self, o: &u8) -> bool {
        !self.le(o)
    }
    fn ge(&self, o: &u8) -> bool {
        !self.lt(o)
    }
}

// ---------------------------------------------------------------------------
// byte slices

#[repr(transparent)]
pub struct SymBytes(pub [SymByte]);

#[repr(transparent)]
pub struct SymStr(pub [SymByte]);

impl SymStr {
    pub fn new(b: &[SymByte]) -> &SymStr {
        // SAFETY: repr(transparent) over [SymByte]
        unsafe { &*(b as *const [SymByte] as *const SymStr) }
    }
    pub fn raw(&self) -> &[SymByte] {
        &self.0
    }
}

impl SymBytes {
    pub fn new(b: &[SymByte]) -> &SymBytes {
        // SAFETY: repr(transparent) over [SymByte]
        unsafe { &*(b as *const [SymByte] as *const SymBytes) }
    }
    pub fn len(&self) -> usize {
        self.0.len()
    }
}

impl Index<usize> for SymBytes {
    type Output = SymByte;
    fn index(&self, i: usize) -> &SymByte {
        &self.0[i]
    }
}

impl Index<Range<usize>> for SymBytes {
    type Output = SymBytes;
    fn index(&self, r: Range<usize>) -> &SymBytes {
        SymBytes::new(&self.0[r])
    }
}

impl Index<Range<usize>> for SymStr {
    type Output = SymStr;
    fn index(&self, r: Range<usize>) -> &SymStr {
        // str indexing panics off a char boundary; the layout of a symbolic text is
        // concrete, so the same check is made against it (engine::is_boundary).
        if r.start > r.end || r.end > self.0.len() {
            panic!("slice index out of range: {}..{} (len {})", r.start, r.end, self.0.len());
        }
        if !engine::is_boundary(self, r.start) || !engine::is_boundary(self, r.end) {
            panic!("byte index is not a char boundary: {}..{}", r.start, r.end);
        }
        SymStr::new(&self.0[r])
    }
}

fn bytes_eq_term<A: ByteLike, B: ByteLike>(a: &[A], b: &[B]) -> Option<Result<bool, String>> {
    // None: lengths differ.  Ok(v): decided concretely.  Err(term): ask the solver.
    if a.len() != b.len() {
        return None;
    }
    let mut parts: Vec<String> = Vec::new();
    for (x, y) in a.iter().zip(b.iter()) {
        match (x.concrete(), y.concrete()) {
            (Some(p), Some(q)) => {
                if p != q {
                    return Some(Ok(false));
                }
            }
            _ => {
                let (tx, ty) = (x.term(), y.term());
                if tx != ty {
                    parts.push(alloc::format!("(= {} {})", tx, ty));
                }
            }
        }
    }
    if parts.is_empty() {
        return Some(Ok(true));
    }
    if parts.len() == 1 {
        return Some(Err(parts.pop().unwrap()));
    }
    Some(Err(alloc::format!("(and {})", parts.join(" "))))
}

/// text == text (slices of the symbolic text compared with each other)
impl PartialEq<SymStr> for SymStr {
    fn eq(&self, o: &SymStr) -> bool {
        match bytes_eq_term(&self.0, &o.0) {
            None => false,
            Some(Ok(v)) => v,
            Some(Err(t)) => engine::decide(t),
        }
    }
}

impl PartialEq<[u8]> for SymBytes {
    fn eq(&self, o: &[u8]) -> bool {
        match bytes_eq_term(&self.0, o) {
            None => false,
            Some(Ok(v)) => v,
            Some(Err(t)) => engine::decide(t),
        }
    }
}

impl PartialEq<SymBytes> for SymBytes {
    fn eq(&self, o: &SymBytes) -> bool {
        match bytes_eq_term(&self.0, &o.0) {
            None => false,
            Some(Ok(v)) => v,
            Some(Err(t)) => engine::decide(t),
        }
    }
}

// ---------------------------------------------------------------------------
// literals and texts

pub trait LitLike {
    type LBytes: ?Sized;
    fn as_bytes(&self) -> &Self::LBytes;
    fn len(&self) -> usize;
    /// the concrete string, if this literal is one
    fn lit_str(&self) -> Option<&str> {
        None
    }
}

impl LitLike for str {
    type LBytes = [u8];
    #[inline]
    fn as_bytes(&self) -> &[u8] {
        str::as_bytes(self)
    }
    #[inline]
    fn len(&self) -> usize {
        str::len(self)
    }
    fn lit_str(&self) -> Option<&str> {
        Some(self)
    }
}

impl LitLike for String {
    type LBytes = [u8];
    #[inline]
    fn as_bytes(&self) -> &[u8] {
        String::as_bytes(self)
    }
    #[inline]
    fn len(&self) -> usize {
        String::len(self)
    }
    fn lit_str(&self) -> Option<&str> {
        Some(self.as_str())
    }
}

impl LitLike for SymStr {
    type LBytes = SymBytes;
    fn as_bytes(&self) -> &SymBytes {
        SymBytes::new(&self.0)
    }
    fn len(&self) -> usize {
        self.0.len()
    }
}

/// A set of code point ranges with an identity (for the solver's `define-fun`).
#[derive(Debug, Clone)]
pub struct Cls {
    pub id: usize,
    pub ranges: Vec<(u32, u32)>,
}

impl Cls {
    pub fn contains(&self, c: u32) -> bool {
        self.ranges.iter().any(|&(lo, hi)| lo <= c && c <= hi)
    }
}

pub trait Text: LitLike<LBytes = <Self as Text>::Bytes> + Index<Range<usize>, Output = Self> + PartialEq<Self> {
    type Byte: ByteLike;
    type Bytes: ?Sized
        + Index<usize, Output = Self::Byte>
        + Index<Range<usize>, Output = Self::Bytes>
        + PartialEq<[u8]>
        + PartialEq<Self::Bytes>;

    /// `true` for symbolic texts (the models of regex-automata are used), `false`
    /// for real strings (the real regex-automata is used).
    const SYMBOLIC: bool;

    /// Anchored leftmost-first search of the delegate at `ix`: end offset.
    fn search_half(&self, re: &Regex, pattern: &String, ix: usize) -> Option<usize>;
    /// Same with capture slots (slot 0/1 = whole delegate match).
    fn search_slots(
        &self,
        re: &Regex,
        pattern: &String,
        ix: usize,
        slots: &mut [Option<NonMaxUsize>],
    ) -> bool;

    /// Is the character that starts at byte `ix` (ix < len, a char boundary) in `cls`?
    fn class_contains(&self, ix: usize, cls: &Cls) -> bool;

    /// The concrete string, if this is one.
    fn as_str(&self) -> Option<&str>;
    /// The symbolic text, if this is one.
    fn as_sym(&self) -> Option<&SymStr>;
    /// Concrete bytes standing for this text: the text itself, or for a symbolic text the
    /// smallest value each byte can take under the current path condition (used only by the
    /// fallback rewrite of `prev_codepoint_ix`, when its byte test cannot be made generic).
    fn representative_bytes(&self) -> Vec<u8>;
    /// A concrete instance of this text: the text itself, or for a symbolic text the
    /// lexicographically smallest text that satisfies the current path condition.
    fn representative(&self) -> String;

    /// Run the repository's VM on this text.
    fn run_vm(
        &self,
        prog: &crate::vm::Prog,
        pos: usize,
        option_flags: u32,
        opts: &crate::symx_api::Opts,
    ) -> crate::Result<Option<Vec<usize>>>;
}

impl Text for str {
    type Byte = u8;
    type Bytes = [u8];
    const SYMBOLIC: bool = false;

    #[inline]
    fn search_half(&self, re: &Regex, _pattern: &String, ix: usize) -> Option<usize> {
        let input = Input::new(self).span(ix..str::len(self)).anchored(Anchored::Yes);
        re.search_half(&input).map(|m| m.offset())
    }
    #[inline]
    fn search_slots(
        &self,
        re: &Regex,
        _pattern: &String,
        ix: usize,
        slots: &mut [Option<NonMaxUsize>],
    ) -> bool {
        let input = Input::new(self).span(ix..str::len(self)).anchored(Anchored::Yes);
        re.search_slots(&input, slots).is_some()
    }
    fn class_contains(&self, ix: usize, cls: &Cls) -> bool {
        let c = self[ix..].chars().next().expect("char at ix") as u32;
        cls.contains(c)
    }
    fn as_str(&self) -> Option<&str> {
        Some(self)
    }
    fn as_sym(&self) -> Option<&SymStr> {
        None
    }
    fn representative_bytes(&self) -> Vec<u8> {
        str::as_bytes(self).to_vec()
    }
    fn representative(&self) -> String {
        self.to_string()
    }
    fn run_vm(
        &self,
        prog: &crate::vm::Prog,
        pos: usize,
        option_flags: u32,
        opts: &crate::symx_api::Opts,
    ) -> crate::Result<Option<Vec<usize>>> {
        crate::vm::run(prog, self, pos, option_flags, &opts.0)
    }
}

/// Width of the UTF-8 character whose lead byte is `b` -- /verif's own, so that the models
/// and the reference matcher do not depend on the repository's helper.
pub fn cp_len<B: ByteLike>(b: B) -> usize {
    if b < 0x80 {
        1
    } else if b < 0xe0 {
        2
    } else if b < 0xf0 {
        3
    } else {
        4
    }
}

/// Start of the character that ends at `ix` (ix > 0) -- /verif's own.
pub fn prev_boundary<T: Text + ?Sized>(t: &T, mut ix: usize) -> usize {
    loop {
        ix -= 1;
        // a continuation byte is 0x80..=0xBF
        let b = t.as_bytes()[ix];
        if ix == 0 || b < 0x80 || b >= 0xc0 {
            return ix;
        }
    }
}

/// 24-bit code point term of the `w`-byte character starting at `b[0]`.
pub fn cp_term(b: &[SymByte]) -> String {
    match b.len() {
        1 => alloc::format!("((_ zero_extend 16) {})", b[0].term()),
        2 => alloc::format!(
            "(concat #b0000000000000 ((_ extract 4 0) {}) ((_ extract 5 0) {}))",
            b[0].term(),
            b[1].term()
        ),
        3 => alloc::format!(
            "(concat #x00 ((_ extract 3 0) {}) ((_ extract 5 0) {}) ((_ extract 5 0) {}))",
            b[0].term(),
            b[1].term(),
            b[2].term()
        ),
        4 => alloc::format!(
            "(concat #b000 ((_ extract 2 0) {}) ((_ extract 5 0) {}) ((_ extract 5 0) {}) ((_ extract 5 0) {}))",
            b[0].term(),
            b[1].term(),
            b[2].term(),
            b[3].term()
        ),
        n => panic!("bad char width {}", n),
    }
}

fn decode_concrete(b: &[SymByte]) -> Option<u32> {
    let mut v: Vec<u8> = Vec::new();
    for x in b {
        v.push(x.concrete()?);
    }
    core::str::from_utf8(&v).ok().and_then(|s| s.chars().next()).map(|c| c as u32)
}

impl Text for SymStr {
    type Byte = SymByte;
    type Bytes = SymBytes;
    const SYMBOLIC: bool = true;

    fn search_half(&self, _re: &Regex, pattern: &String, ix: usize) -> Option<usize> {
        let hir = crate::symx_api::delegate_hir(pattern);
        let mut slots = Vec::new();
        crate::hirmodel::anchored(&hir, self, ix, &mut slots)
    }
    fn search_slots(
        &self,
        _re: &Regex,
        pattern: &String,
        ix: usize,
        slots: &mut [Option<NonMaxUsize>],
    ) -> bool {
        let hir = crate::symx_api::delegate_hir(pattern);
        let mut s: Vec<Option<usize>> = Vec::new();
        match crate::hirmodel::anchored(&hir, self, ix, &mut s) {
            Some(end) => {
                for x in slots.iter_mut() {
                    *x = None;
                }
                if slots.len() >= 2 {
                    slots[0] = NonMaxUsize::new(ix);
                    slots[1] = NonMaxUsize::new(end);
                }
                for (i, v) in s.iter().enumerate() {
                    if i >= 2 && i < slots.len() {
                        slots[i] = v.and_then(NonMaxUsize::new);
                    }
                }
                true
            }
            None => false,
        }
    }
    fn class_contains(&self, ix: usize, cls: &Cls) -> bool {
        let w = cp_len(self.0[ix]);
        let b = &self.0[ix..ix + w];
        if let Some(c) = decode_concrete(b) {
            return cls.contains(c);
        }
        engine::decide(alloc::format!("(cls{}_{} {})", cls.id, w, cp_term(b)))
    }
    fn as_str(&self) -> Option<&str> {
        None
    }
    fn as_sym(&self) -> Option<&SymStr> {
        Some(self)
    }
    fn representative(&self) -> String {
        let terms: Vec<Result<u8, String>> = self.0.iter().map(|b| match b.concrete() {
            Some(v) => Ok(v),
            None => Err(b.term()),
        }).collect();
        String::from_utf8(engine::min_model(&terms)).expect("representative text is valid UTF-8 (layout constraint)")
    }
    fn representative_bytes(&self) -> Vec<u8> {
        self.0.iter().map(|b| match b.concrete() {
            Some(v) => v,
            None => engine::min_value(&b.term()),
        }).collect()
    }
    fn run_vm(
        &self,
        prog: &crate::vm::Prog,
        pos: usize,
        option_flags: u32,
        opts: &crate::symx_api::Opts,
    ) -> crate::Result<Option<Vec<usize>>> {
        crate::vm::run(prog, self, pos, option_flags, &opts.0)
    }
}

// ---------------------------------------------------------------------------
// look-around assertions of regex-automata

pub struct Look(LookMatcher);

impl Look {
    pub fn new() -> Look {
        Look(LookMatcher::new())
    }
}

pub trait LookOn<B: ?Sized> {
    fn is_start(&self, b: &B, at: usize) -> bool;
    fn is_end(&self, b: &B, at: usize) -> bool;
    fn is_start_lf(&self, b: &B, at: usize) -> bool;
    fn is_end_lf(&self, b: &B, at: usize) -> bool;
    fn is_start_crlf(&self, b: &B, at: usize) -> bool;
    fn is_end_crlf(&self, b: &B, at: usize) -> bool;
    fn is_word_start_unicode(&self, b: &B, at: usize) -> Result<bool, ()>;
    fn is_word_end_unicode(&self, b: &B, at: usize) -> Result<bool, ()>;
    fn is_word_unicode(&self, b: &B, at: usize) -> Result<bool, ()>;
    fn is_word_unicode_negate(&self, b: &B, at: usize) -> Result<bool, ()>;
}

impl LookOn<[u8]> for Look {
    #[inline]
    fn is_start(&self, b: &[u8], at: usize) -> bool {
        self.0.is_start(b, at)
    }
    #[inline]
    fn is_end(&self, b: &[u8], at: usize) -> bool {
        self.0.is_end(b, at)
    }
    #[inline]
    fn is_start_lf(&self, b: &[u8], at: usize) -> bool {
        self.0.is_start_lf(b, at)
    }
    #[inline]
    fn is_end_lf(&self, b: &[u8], at: usize) -> bool {
        self.0.is_end_lf(b, at)
    }
    #[inline]
    fn is_start_crlf(&self, b: &[u8], at: usize) -> bool {
        self.0.is_start_crlf(b, at)
    }
    #[inline]
    fn is_end_crlf(&self, b: &[u8], at: usize) -> bool {
        self.0.is_end_crlf(b, at)
    }
    #[inline]
    fn is_word_start_unicode(&self, b: &[u8], at: usize) -> Result<bool, ()> {
        self.0.is_word_start_unicode(b, at).map_err(|_| ())
    }
    #[inline]
    fn is_word_end_unicode(&self, b: &[u8], at: usize) -> Result<bool, ()> {
        self.0.is_word_end_unicode(b, at).map_err(|_| ())
    }
    #[inline]
    fn is_word_unicode(&self, b: &[u8], at: usize) -> Result<bool, ()> {
        self.0.is_word_unicode(b, at).map_err(|_| ())
    }
    #[inline]
    fn is_word_unicode_negate(&self, b: &[u8], at: usize) -> Result<bool, ()> {
        self.0.is_word_unicode_negate(b, at).map_err(|_| ())
    }
}

impl LookOn<SymBytes> for Look {
    fn is_start(&self, b: &SymBytes, at: usize) -> bool {
        crate::hirmodel::look::is_start(SymStr::new(&b.0), at)
    }
    fn is_end(&self, b: &SymBytes, at: usize) -> bool {
        crate::hirmodel::look::is_end(SymStr::new(&b.0), at)
    }
    fn is_start_lf(&self, b: &SymBytes, at: usize) -> bool {
        crate::hirmodel::look::is_start_lf(SymStr::new(&b.0), at)
    }
    fn is_end_lf(&self, b: &SymBytes, at: usize) -> bool {
        crate::hirmodel::look::is_end_lf(SymStr::new(&b.0), at)
    }
    fn is_start_crlf(&self, b: &SymBytes, at: usize) -> bool {
        crate::hirmodel::look::is_start_crlf(SymStr::new(&b.0), at)
    }
    fn is_end_crlf(&self, b: &SymBytes, at: usize) -> bool {
        crate::hirmodel::look::is_end_crlf(SymStr::new(&b.0), at)
    }
    fn is_word_start_unicode(&self, b: &SymBytes, at: usize) -> Result<bool, ()> {
        let (p, n) = crate::hirmodel::look::word_sides(SymStr::new(&b.0), at);
        Ok(!p && n)
    }
    fn is_word_end_unicode(&self, b: &SymBytes, at: usize) -> Result<bool, ()> {
        let (p, n) = crate::hirmodel::look::word_sides(SymStr::new(&b.0), at);
        Ok(p && !n)
    }
    fn is_word_unicode(&self, b: &SymBytes, at: usize) -> Result<bool, ()> {
        let (p, n) = crate::hirmodel::look::word_sides(SymStr::new(&b.0), at);
        Ok(p != n)
    }
    fn is_word_unicode_negate(&self, b: &SymBytes, at: usize) -> Result<bool, ()> {
        let (p, n) = crate::hirmodel::look::word_sides(SymStr::new(&b.0), at);
        Ok(p == n)
    }
}
