//! Glue between the rewritten repository code and the SYMX machinery:
//! instrumentation call-backs, pattern building, unified search, the worker pool
//! and the command line of the `symx` binary.
//!
//! This file is part of /verif (overlay), not of the repository.

use std::cell::RefCell;
use std::collections::HashMap;
use std::rc::Rc;
use std::string::String;
use std::sync::atomic::{AtomicBool, AtomicUsize, Ordering};
use std::sync::{Arc, Mutex};
use std::time::{Duration, Instant};
use std::vec::Vec;

use regex_automata::util::syntax::Config as SyntaxConfig;
use regex_automata::Input as RaInput;

use crate::engine;
use crate::hirmodel::{self, HProg};
use crate::symtext::{Cls, SymByte, SymStr, Text};
use crate::vm::{Insn, Prog};
use crate::{Regex, RegexImpl, RegexOptions};

/// Opaque wrapper so that the crate-private options type can travel through the
/// public `Text` trait.
pub struct Opts(pub(crate) RegexOptions);

// ---------------------------------------------------------------------------
// instrumentation call-backs (I1, I2, I3, I4) and the VM intercept

#[derive(Default, Clone, Debug)]
pub struct RunStats {
    pub steps: u64,
    /// value of the VM's own backtrack counter
    pub backtracks: u64,
    /// number of times execution resumed from a saved alternative (independent of where
    /// the VM increments its counter)
    pub resumes: u64,
}

#[derive(Default)]
pub struct Shadow {
    pub enabled: bool,
    n_saves: usize,
    m_saves: Vec<usize>,
    m_explicit: Vec<usize>,
    m_stack: Vec<(usize, usize, Vec<usize>, Vec<usize>)>,
    scope: usize,
    /// (number of alternatives expected once the failing negative look-around has discarded
    /// its own, description) -- checked at the next backtrack or at the end of the run
    pending_neg: Option<(usize, String)>,
    pub history: String,
    pub history_ops: usize,
    pub ops: u64,
    pub pushes: u64,
    pub pops: u64,
    pub cuts: u64,
    pub saves: u64,
    pub max_depth: usize,
    pub violations: Vec<String>,
}

pub const HISTORY_CAP: usize = 4000;

impl Shadow {
    pub fn n_saves_pub(&self) -> usize {
        self.n_saves
    }
    fn rec(&mut self, op: String) {
        self.history_ops += 1;
        if self.history_ops <= HISTORY_CAP {
            if !self.history.is_empty() {
                self.history.push(';');
            }
            self.history.push_str(&op);
        }
    }
    /// compare the real state with the whole-state-copy model
    fn compare(&mut self, what: &str, saves: &Vec<usize>, depth: usize) {
        let n = self.n_saves;
        if saves.len() < n || saves[..n] != self.m_saves[..] {
            let m = std::format!("{}: slots {:?} but whole-state-copy model has {:?}", what, &saves[..n.min(saves.len())], self.m_saves);
            self.violations.push(m);
        }
        // explicit stack: saves[n] is the stack pointer, entries are saves[n+1..sp]
        let real: Vec<usize> = if saves.len() > n {
            let sp = saves[n];
            if sp >= n + 1 && sp <= saves.len() {
                saves[n + 1..sp].to_vec()
            } else {
                vec![usize::MAX - 1]
            }
        } else {
            Vec::new()
        };
        if real != self.m_explicit {
            let m = std::format!("{}: auxiliary stack {:?} but model has {:?}", what, real, self.m_explicit);
            self.violations.push(m);
        }
        if depth != self.m_stack.len() {
            let m = std::format!("{}: {} alternatives but model has {}", what, depth, self.m_stack.len());
            self.violations.push(m);
        }
    }
}

thread_local! {
    static RUN: RefCell<RunStats> = RefCell::new(RunStats::default());
    static LAST_RUN: RefCell<RunStats> = RefCell::new(RunStats::default());
    static STEP_CAP: RefCell<u64> = RefCell::new(2_000_000);
    static DELEGATE_LOG: RefCell<Vec<(String, SyntaxConfig)>> = RefCell::new(Vec::new());
    static DELEGATES: RefCell<HashMap<usize, Rc<HProg>>> = RefCell::new(HashMap::new());
    static SESSION: RefCell<Option<(*const SymByte, usize)>> = RefCell::new(None);
    static SESSION_WRAP: RefCell<Option<Rc<HProg>>> = RefCell::new(None);
    static IN_SESSION_RUN: RefCell<bool> = RefCell::new(false);
    pub static SHADOW: RefCell<Shadow> = RefCell::new(Shadow::default());
}

pub const STEP_CAP_PANIC: &str = "SYMX-VM-STEP-CAP";

pub struct RunGuard;

impl RunGuard {
    pub fn enter(n_saves: usize) -> RunGuard {
        RUN.with(|r| *r.borrow_mut() = RunStats::default());
        SHADOW.with(|s| {
            let mut s = s.borrow_mut();
            if s.enabled {
                s.n_saves = n_saves;
                s.m_saves = vec![usize::MAX; n_saves];
                s.m_explicit.clear();
                s.m_stack.clear();
                s.scope = 0;
                s.pending_neg = None;
                s.history.clear();
                s.history_ops = 0;
                s.violations.clear();
            }
        });
        RunGuard
    }
}

impl Drop for RunGuard {
    fn drop(&mut self) {
        shadow_neg_check();
        let st = RUN.with(|r| r.borrow().clone());
        LAST_RUN.with(|r| *r.borrow_mut() = st);
    }
}

pub fn last_run_stats() -> RunStats {
    LAST_RUN.with(|r| r.borrow().clone())
}

pub fn set_step_cap(c: u64) {
    STEP_CAP.with(|s| *s.borrow_mut() = c);
}

#[inline]
pub fn vm_step() {
    let over = RUN.with(|r| {
        let mut r = r.borrow_mut();
        r.steps += 1;
        r.steps > STEP_CAP.with(|s| *s.borrow())
    });
    if over {
        panic!("{}", STEP_CAP_PANIC);
    }
}

#[inline]
pub fn vm_backtrack() {
    RUN.with(|r| r.borrow_mut().backtracks += 1);
    shadow_neg_check();
}

/// Entering the FailNegativeLookAround arm at `pc`: the look-around's own alternative is the
/// topmost one that resumes at pc + 1; after the arm exactly the alternatives below it remain.
pub fn shadow_neg_enter(pc: usize) {
    SHADOW.with(|s| {
        let mut s = s.borrow_mut();
        if !s.enabled {
            return;
        }
        let pos = s.m_stack.iter().rposition(|b| b.0 == pc + 1);
        match pos {
            Some(k) => s.pending_neg = Some((k, std::format!("negative look-around at pc {}", pc))),
            None => s.violations.push(std::format!("negative look-around at pc {} fails but its own alternative is not on the stack", pc)),
        }
    });
}

pub fn shadow_neg_check() {
    SHADOW.with(|s| {
        let mut s = s.borrow_mut();
        if !s.enabled {
            return;
        }
        if let Some((want, what)) = s.pending_neg.take() {
            s.rec(std::format!("N{}", want));
            if s.m_stack.len() != want {
                let m = std::format!("{}: {} alternatives left after its failure, expected exactly the {} created before it was entered", what, s.m_stack.len(), want);
                s.violations.push(m);
            }
        }
    });
}

#[inline]
pub fn vm_resume() {
    RUN.with(|r| r.borrow_mut().resumes += 1);
}

pub fn note_delegate(pattern: &str, cfg: &SyntaxConfig) {
    DELEGATE_LOG.with(|l| l.borrow_mut().push((pattern.to_string(), cfg.clone())));
}

pub fn delegate_hir(pattern: &String) -> Rc<HProg> {
    let key = pattern.as_ptr() as usize;
    DELEGATES.with(|d| match d.borrow().get(&key) {
        Some(h) => h.clone(),
        None => panic!("SYMX-NO-DELEGATE-MODEL for {}", pattern),
    })
}

/// While a symbolic session is installed, every `vm::run` on a concrete string
/// (i.e. the calls made by the real `lib.rs` wrappers) is redirected to the
/// symbolic text of the session.
pub(crate) fn intercept(
    prog: &Prog,
    len: usize,
    pos: usize,
    option_flags: u32,
    options: &RegexOptions,
) -> Option<crate::Result<Option<Vec<usize>>>> {
    let sess = SESSION.with(|s| *s.borrow());
    let (ptr, n) = sess?;
    if IN_SESSION_RUN.with(|f| *f.borrow()) {
        return None;
    }
    if n != len {
        panic!("SYMX-SESSION-LENGTH-MISMATCH");
    }
    IN_SESSION_RUN.with(|f| *f.borrow_mut() = true);
    // SAFETY: the session owner keeps the byte vector alive while installed
    let bytes = unsafe { core::slice::from_raw_parts(ptr, n) };
    let text = SymStr::new(bytes);
    struct Reset;
    impl Drop for Reset {
        fn drop(&mut self) {
            IN_SESSION_RUN.with(|f| *f.borrow_mut() = false);
        }
    }
    let _r = Reset;
    Some(crate::vm::run(prog, text, pos, option_flags, options))
}

pub struct SessionGuard;

/// Redirect every search the real `lib.rs` wrappers make (on a concrete placeholder text
/// of the same UTF-8 layout) to the symbolic text `t`.
pub fn install_session(t: &SymStr, wrap: Option<Rc<HProg>>) -> SessionGuard {
    SESSION.with(|s| *s.borrow_mut() = Some((t.raw().as_ptr(), t.raw().len())));
    SESSION_WRAP.with(|s| *s.borrow_mut() = wrap);
    SessionGuard
}

fn session_text<'a>() -> Option<&'a SymStr> {
    let (ptr, n) = SESSION.with(|s| *s.borrow())?;
    // SAFETY: the session owner keeps the byte vector alive while installed
    let bytes = unsafe { core::slice::from_raw_parts(ptr, n) };
    Some(SymStr::new(bytes))
}

/// The text a session search is made on: the whole symbolic text, or -- when the caller
/// hands regex-automata a sub-slice of the placeholder -- the same sub-slice of it.
fn session_view(hay: &[u8]) -> Option<(&'static SymStr, Rc<HProg>)> {
    let t = session_text()?;
    let w = SESSION_WRAP.with(|s| s.borrow().clone()).expect("SYMX: session without wrap model");
    if t.raw().len() == hay.len() {
        return Some((t, w));
    }
    let (pp, pn) = PLACEHOLDER.with(|p| *p.borrow()).unwrap_or((core::ptr::null(), 0));
    let off = (hay.as_ptr() as usize).wrapping_sub(pp as usize);
    if pp.is_null() || off > pn || off + hay.len() > pn {
        panic!("SYMX-SESSION-LENGTH-MISMATCH");
    }
    let sub: &SymStr = &t[off..off + hay.len()];
    // SAFETY: lives as long as the session text
    let sub: &'static SymStr = unsafe { &*(sub as *const SymStr) };
    Some((sub, w))
}

std::thread_local! {
    static PLACEHOLDER: RefCell<Option<(*const u8, usize)>> = RefCell::new(None);
}

/// The placeholder text the wrappers run on (so that a sub-slice handed to the automaton
/// can be located in the symbolic text).
pub fn set_placeholder(ph: &str) {
    PLACEHOLDER.with(|p| *p.borrow_mut() = Some((ph.as_ptr(), ph.len())));
}

/// `regex_automata::meta::Regex` as the repository's wrappers see it: outside a session the
/// real automaton, inside one the model over the symbolic text.  The `Input` is the one the
/// repository's code built (haystack, span, anchored mode are read from it).
pub struct RaShim<'a>(pub &'a regex_automata::meta::Regex);

fn shim_model(input: &RaInput<'_>) -> Option<Option<Vec<Option<usize>>>> {
    let (t, w) = session_view(input.haystack())?;
    if input.end() != input.haystack().len() {
        panic!("SYMX-UNSUPPORTED: search span ends before the haystack does");
    }
    let start = input.start();
    Some(match input.get_anchored() {
        regex_automata::Anchored::No => hirmodel::search(&w, t, start),
        _ => {
            let mut out = Vec::new();
            hirmodel::anchored(&w, t, start, &mut out).map(|_| out)
        }
    })
}

impl<'a> RaShim<'a> {
    pub fn search(&self, input: &RaInput<'_>) -> Option<regex_automata::Match> {
        match shim_model(input) {
            Some(r) => r.map(|c| regex_automata::Match::new(regex_automata::PatternID::ZERO, c[0].unwrap()..c[1].unwrap())),
            None => self.0.search(input),
        }
    }
    pub fn find<'h, I: Into<RaInput<'h>>>(&self, input: I) -> Option<regex_automata::Match> {
        let input = input.into();
        self.search(&input)
    }
    pub fn search_half(&self, input: &RaInput<'_>) -> Option<regex_automata::HalfMatch> {
        match shim_model(input) {
            Some(r) => r.map(|c| regex_automata::HalfMatch::new(regex_automata::PatternID::ZERO, c[1].unwrap())),
            None => self.0.search_half(input),
        }
    }
    pub fn is_match<'h, I: Into<RaInput<'h>>>(&self, input: I) -> bool {
        let input = input.into();
        match shim_model(&input) {
            Some(r) => r.is_some(),
            None => self.0.is_match(input),
        }
    }
    pub fn captures<'h, I: Into<RaInput<'h>>>(&self, input: I, locations: &mut regex_automata::util::captures::Captures) {
        let input = input.into();
        match shim_model(&input) {
            Some(Some(c)) => {
                locations.set_pattern(Some(regex_automata::PatternID::ZERO));
                let slots = locations.slots_mut();
                for (i, s) in slots.iter_mut().enumerate() {
                    *s = c.get(i).cloned().flatten().and_then(regex_automata::util::primitives::NonMaxUsize::new);
                }
            }
            Some(None) => locations.set_pattern(None),
            None => self.0.captures(input, locations),
        }
    }
    pub fn create_captures(&self) -> regex_automata::util::captures::Captures {
        self.0.create_captures()
    }
}

impl Drop for SessionGuard {
    fn drop(&mut self) {
        SESSION.with(|s| *s.borrow_mut() = None);
        SESSION_WRAP.with(|s| *s.borrow_mut() = None);
        IN_SESSION_RUN.with(|f| *f.borrow_mut() = false);
    }
}

pub fn session_active() -> bool {
    SESSION.with(|s| s.borrow().is_some())
}

// ---- shadow whole-state-copy model of the backtracking state (C20) --------

pub struct OpScope;

impl OpScope {
    pub fn enter() -> OpScope {
        SHADOW.with(|s| s.borrow_mut().scope += 1);
        OpScope
    }
}

impl Drop for OpScope {
    fn drop(&mut self) {
        SHADOW.with(|s| {
            let mut s = s.borrow_mut();
            if s.scope > 0 {
                s.scope -= 1;
            }
        });
    }
}

pub fn shadow_reset(enabled: bool) {
    SHADOW.with(|s| {
        let mut s = s.borrow_mut();
        *s = Shadow::default();
        s.enabled = enabled;
    });
}

pub fn shadow_save(slot: usize, val: usize) {
    SHADOW.with(|s| {
        let mut s = s.borrow_mut();
        if !s.enabled || s.scope > 0 {
            return;
        }
        s.ops += 1;
        s.saves += 1;
        if slot < s.n_saves {
            s.m_saves[slot] = val;
        } else {
            let m = std::format!("save: slot {} outside the {} slots of the program", slot, s.n_saves);
            s.violations.push(m);
        }
        s.rec(std::format!("S{},{}", slot, val));
    });
}

pub fn shadow_stack_pushed(v: usize) {
    SHADOW.with(|s| {
        let mut s = s.borrow_mut();
        if !s.enabled {
            return;
        }
        s.ops += 1;
        s.m_explicit.push(v);
        s.rec(std::format!("K{}", v));
    });
}

pub fn shadow_stack_popped(r: usize) {
    SHADOW.with(|s| {
        let mut s = s.borrow_mut();
        if !s.enabled {
            return;
        }
        s.ops += 1;
        let e = s.m_explicit.pop();
        if e != Some(r) {
            let m = std::format!("auxiliary pop returned {} but the model has {:?}", r, e);
            s.violations.push(m);
        }
        s.rec("L".to_string());
    });
}

pub fn shadow_push(pc: usize, ix: usize, saves: &Vec<usize>, depth: usize) {
    SHADOW.with(|s| {
        let mut s = s.borrow_mut();
        if !s.enabled {
            return;
        }
        s.ops += 1;
        s.pushes += 1;
        let snap = (pc, ix, s.m_saves.clone(), s.m_explicit.clone());
        s.m_stack.push(snap);
        if s.m_stack.len() > s.max_depth {
            s.max_depth = s.m_stack.len();
        }
        s.rec(std::format!("P{},{}", pc, ix));
        s.compare("create alternative", saves, depth);
    });
}

pub fn shadow_pop(pc: usize, ix: usize, saves: &Vec<usize>, depth: usize) {
    SHADOW.with(|s| {
        let mut s = s.borrow_mut();
        if !s.enabled {
            return;
        }
        s.ops += 1;
        s.pops += 1;
        s.rec("Q".to_string());
        match s.m_stack.pop() {
            None => s.violations.push("abandon: no alternative left in the model".to_string()),
            Some((ppc, pix, ms, me)) => {
                if ppc != pc || pix != ix {
                    let m = std::format!("abandon: resumed at ({},{}) but the alternative was created as ({},{})", pc, ix, ppc, pix);
                    s.violations.push(m);
                }
                s.m_saves = ms;
                s.m_explicit = me;
            }
        }
        s.compare("abandon alternative", saves, depth);
    });
}

pub fn shadow_cut_enter(count: usize) {
    SHADOW.with(|s| {
        let mut s = s.borrow_mut();
        if !s.enabled {
            return;
        }
        s.ops += 1;
        s.cuts += 1;
        s.rec(std::format!("C{}", count));
        if count > s.m_stack.len() {
            let m = std::format!("commit: to {} alternatives but the model has {}", count, s.m_stack.len());
            s.violations.push(m);
        }
        s.m_stack.truncate(count);
    });
}

pub fn shadow_cut(_count: usize, saves: &Vec<usize>, depth: usize) {
    SHADOW.with(|s| {
        let mut s = s.borrow_mut();
        if !s.enabled {
            return;
        }
        s.compare("commit atomic", saves, depth);
    });
}

// ---------------------------------------------------------------------------
// building patterns with the repository's real pipeline

pub struct Built {
    pub src: String,
    pub regex: Regex,
    pub opts: Opts,
    pub fancy: bool,
    pub n_groups: usize,
    pub wrap: Option<Rc<HProg>>,
    pub classes: Vec<Cls>,
    pub insn_kinds: u32,
    pub delegate_patterns: Vec<String>,
    /// every (pattern text, syntax configuration) handed to regex-automata by this build
    pub delegate_log: Vec<(String, SyntaxConfig)>,
    pub prog_len: usize,
    pub max_repeat: usize,
}

pub fn insn_kind_index(i: &Insn) -> u32 {
    match i {
        Insn::End => 0,
        Insn::Any => 1,
        Insn::AnyNoNL => 2,
        Insn::Assertion(_) => 3,
        Insn::Lit(_) => 4,
        Insn::Split(..) => 5,
        Insn::Jmp(_) => 6,
        Insn::Save(_) => 7,
        Insn::Save0(_) => 8,
        Insn::Restore(_) => 9,
        Insn::RepeatGr { .. } => 10,
        Insn::RepeatNg { .. } => 11,
        Insn::RepeatEpsilonGr { .. } => 12,
        Insn::RepeatEpsilonNg { .. } => 13,
        Insn::FailNegativeLookAround => 14,
        Insn::GoBack(_) => 15,
        Insn::Backref(_) => 16,
        Insn::BeginAtomic => 17,
        Insn::EndAtomic => 18,
        Insn::Delegate { .. } => 19,
        Insn::ContinueFromPreviousMatchEnd => 20,
        Insn::BackrefExistsCondition(_) => 21,
    }
}

pub const INSN_KIND_NAMES: [&str; 22] = [
    "End", "Any", "AnyNoNL", "Assertion", "Lit", "Split", "Jmp", "Save", "Save0", "Restore", "RepeatGr",
    "RepeatNg", "RepeatEpsilonGr", "RepeatEpsilonNg", "FailNegativeLookAround", "GoBack", "Backref",
    "BeginAtomic", "EndAtomic", "Delegate", "ContinueFromPreviousMatchEnd", "BackrefExistsCondition",
];

pub fn clear_delegates() {
    DELEGATES.with(|d| d.borrow_mut().clear());
}

fn add_classes(dst: &mut Vec<Cls>, src: &[Cls]) {
    for c in src {
        if !dst.iter().any(|x| x.id == c.id) {
            dst.push(c.clone());
        }
    }
}

/// Build with the repository's `Regex::new_options`.  Err carries the error's Debug text.
pub fn build(pattern: &str, casei: bool, limit: Option<usize>) -> Result<Built, String> {
    build_sized(pattern, casei, limit, None)
}

/// `build` with explicit delegate size limits (nfa, dfa).
pub fn build_sized(pattern: &str, casei: bool, limit: Option<usize>, sizes: Option<(usize, usize)>) -> Result<Built, String> {
    DELEGATE_LOG.with(|l| l.borrow_mut().clear());
    let mut options = RegexOptions { pattern: pattern.to_string(), ..RegexOptions::default() };
    if casei {
        options.syntaxc = options.syntaxc.case_insensitive(true);
    }
    if let Some(l) = limit {
        options.backtrack_limit = l;
    }
    let regex = match sizes {
        // the size limits go through the public builder (no dependence on how the options
        // are stored); the options of the result are read back from it
        Some((a, d)) => {
            let mut bld = crate::RegexBuilder::new(pattern);
            bld.case_insensitive(casei);
            if let Some(l) = limit {
                bld.backtrack_limit(l);
            }
            bld.delegate_size_limit(a).delegate_dfa_size_limit(d);
            match bld.build() {
                Ok(r) => r,
                Err(e) => return Err(std::format!("{:?}", e)),
            }
        }
        None => match Regex::new_options(options.clone()) {
            Ok(r) => r,
            Err(e) => return Err(std::format!("{:?}", e)),
        },
    };
    if sizes.is_some() {
        options = match &regex.inner {
            RegexImpl::Wrap { options, .. } => options.clone(),
            RegexImpl::Fancy { options, .. } => options.clone(),
        };
    }
    let log: Vec<(String, SyntaxConfig)> = DELEGATE_LOG.with(|l| l.borrow_mut().drain(..).collect());
    let mut classes: Vec<Cls> = Vec::new();
    let mut insn_kinds = 0u32;
    let mut delegate_patterns = Vec::new();
    let mut wrap = None;
    let (fancy, n_groups, prog_len, max_repeat);
    match &regex.inner {
        RegexImpl::Wrap { inner, .. } => {
            fancy = false;
            // the number of groups a caller sees through `captures()` (Captures::len)
            n_groups = inner.group_info().group_len(regex_automata::PatternID::ZERO);
            prog_len = 0;
            max_repeat = 0;
            let (p, cfg) = log.get(0).ok_or_else(|| "SYMX: no delegate recorded for Wrap".to_string())?;
            let hp = hirmodel::parse(p, cfg).map_err(|e| std::format!("SYMX: wrap pattern does not parse: {}", e))?;
            add_classes(&mut classes, &hp.classes);
            delegate_patterns.push(p.clone());
            wrap = Some(Rc::new(hp));
        }
        RegexImpl::Fancy { prog, n_groups: n, .. } => {
            fancy = true;
            n_groups = *n;
            prog_len = prog.body.len();
            let mut li = 0;
            let mut mr = 0usize;
            for insn in &prog.body {
                insn_kinds |= 1 << insn_kind_index(insn);
                match insn {
                    Insn::Delegate { pattern, .. } => {
                        while li < log.len() && &log[li].0 != pattern {
                            li += 1;
                        }
                        if li >= log.len() {
                            return Err("SYMX: delegate without recorded configuration".to_string());
                        }
                        let hp = hirmodel::parse(pattern, &log[li].1)
                            .map_err(|e| std::format!("SYMX: delegate pattern does not parse: {}", e))?;
                        li += 1;
                        add_classes(&mut classes, &hp.classes);
                        delegate_patterns.push(pattern.clone());
                        DELEGATES.with(|d| d.borrow_mut().insert(pattern.as_ptr() as usize, Rc::new(hp)));
                    }
                    Insn::Assertion(a) => {
                        if a.is_hard() {
                            add_classes(&mut classes, &[hirmodel::word_class()]);
                        }
                    }
                    Insn::RepeatGr { hi, .. } | Insn::RepeatNg { hi, .. } => {
                        if *hi != usize::MAX && *hi > mr {
                            mr = *hi;
                        }
                    }
                    _ => {}
                }
            }
            max_repeat = mr;
        }
    }
    Ok(Built {
        src: pattern.to_string(),
        regex,
        opts: Opts(options),
        fancy,
        n_groups,
        wrap,
        classes,
        insn_kinds,
        delegate_patterns,
        delegate_log: log.clone(),
        prog_len,
        max_repeat,
    })
}

/// Result of one search, in the shape `Captures::get` exposes it.
#[derive(Clone, Debug, PartialEq, Eq)]
pub enum VmRes {
    Match(Vec<Option<(usize, usize)>>),
    NoMatch,
    Err(String),
}

impl VmRes {
    pub fn canon(&self) -> String {
        match self {
            VmRes::NoMatch => "N".to_string(),
            VmRes::Err(e) => std::format!("E:{}", e),
            VmRes::Match(g) => {
                let mut s = String::from("M");
                for x in g {
                    match x {
                        None => s.push_str("[-]"),
                        Some((a, b)) => s.push_str(&std::format!("[{},{}]", a, b)),
                    }
                }
                s
            }
        }
    }
}

pub fn saves_to_groups(saves: &[usize], n_groups: usize) -> Vec<Option<(usize, usize)>> {
    let mut g = Vec::new();
    for i in 0..n_groups {
        let lo = saves.get(2 * i).cloned().unwrap_or(usize::MAX);
        if lo == usize::MAX {
            g.push(None);
        } else {
            g.push(Some((lo, saves.get(2 * i + 1).cloned().unwrap_or(usize::MAX))));
        }
    }
    g
}

fn err_name(e: &crate::Error) -> String {
    match e {
        crate::Error::RuntimeError(crate::RuntimeError::StackOverflow) => "StackOverflow".to_string(),
        crate::Error::RuntimeError(crate::RuntimeError::BacktrackLimitExceeded) => "BacktrackLimitExceeded".to_string(),
        other => std::format!("{:?}", other),
    }
}

/// One search through the real code: the VM for fancy patterns, regex-automata (or its
/// model on symbolic texts) for wrapped ones.
pub fn search_with<T: Text + ?Sized>(b: &Built, t: &T, pos: usize, flags: u32, opts: &Opts) -> VmRes {
    match &b.regex.inner {
        RegexImpl::Fancy { prog, n_groups, .. } => match t.run_vm(prog, pos, flags, opts) {
            Ok(Some(saves)) => VmRes::Match(saves_to_groups(&saves, *n_groups)),
            Ok(None) => VmRes::NoMatch,
            Err(e) => VmRes::Err(err_name(&e)),
        },
        RegexImpl::Wrap { inner, .. } => {
            if let Some(s) = t.as_str() {
                let mut slots = vec![None; 2 * b.n_groups];
                let input = RaInput::new(s).span(pos..s.len());
                match inner.search_slots(&input, &mut slots) {
                    Some(_) => {
                        let mut g = Vec::new();
                        for i in 0..b.n_groups {
                            match (slots[2 * i], slots[2 * i + 1]) {
                                (Some(a), Some(z)) => g.push(Some((a.get(), z.get()))),
                                _ => g.push(None),
                            }
                        }
                        VmRes::Match(g)
                    }
                    None => VmRes::NoMatch,
                }
            } else {
                match hirmodel::search(b.wrap.as_ref().unwrap(), t, pos) {
                    Some(c) => {
                        let mut g = Vec::new();
                        for i in 0..b.n_groups {
                            match (c.get(2 * i).cloned().flatten(), c.get(2 * i + 1).cloned().flatten()) {
                                (Some(a), Some(z)) => g.push(Some((a, z))),
                                _ => g.push(None),
                            }
                        }
                        VmRes::Match(g)
                    }
                    None => VmRes::NoMatch,
                }
            }
        }
    }
}

pub fn search<T: Text + ?Sized>(b: &Built, t: &T, pos: usize, flags: u32) -> VmRes {
    search_with(b, t, pos, flags, &b.opts)
}

pub fn opts_with_limit(b: &Built, limit: usize) -> Opts {
    let mut o = b.opts.0.clone();
    o.backtrack_limit = limit;
    Opts(o)
}

// ---------------------------------------------------------------------------
// JSON helpers (no serde in the repository's lock file)

pub fn jstr(s: &str) -> String {
    let mut o = String::from("\"");
    for c in s.chars() {
        match c {
            '"' => o.push_str("\\\""),
            '\\' => o.push_str("\\\\"),
            '\n' => o.push_str("\\n"),
            '\r' => o.push_str("\\r"),
            '\t' => o.push_str("\\t"),
            c if (c as u32) < 0x20 => o.push_str(&std::format!("\\u{:04x}", c as u32)),
            c => o.push(c),
        }
    }
    o.push('"');
    o
}

pub fn jbytes(b: &[u8]) -> String {
    let mut o = String::from("[");
    for (i, x) in b.iter().enumerate() {
        if i > 0 {
            o.push(',');
        }
        o.push_str(&std::format!("{}", x));
    }
    o.push(']');
    o
}

// ---------------------------------------------------------------------------
// worker pool and command line

pub struct RunCfg {
    pub prop: String,
    pub tier: String,
    pub seed: u64,
    pub n: usize,
    pub budget_s: f64,
    pub threads: usize,
    pub out: String,
    pub max_paths: usize,
    pub only_pattern: Option<String>,
    pub max_patterns: usize,
    pub verbose: bool,
}

fn parse_args() -> RunCfg {
    let mut cfg = RunCfg {
        prop: "C01".to_string(),
        tier: "quick".to_string(),
        seed: 0,
        n: 3,
        budget_s: 60.0,
        threads: 16,
        out: "symx_out.json".to_string(),
        max_paths: 20000,
        only_pattern: None,
        max_patterns: usize::MAX,
        verbose: false,
    };
    let args: Vec<String> = std::env::args().collect();
    let mut i = 1;
    while i < args.len() {
        let a = args[i].as_str();
        let mut val = || {
            i += 1;
            args.get(i).cloned().unwrap_or_default()
        };
        match a {
            "--prop" => cfg.prop = val(),
            "--tier" => cfg.tier = val(),
            "--seed" => cfg.seed = val().parse().unwrap_or(0),
            "--n" => cfg.n = val().parse().unwrap_or(3),
            "--budget-s" => cfg.budget_s = val().parse().unwrap_or(60.0),
            "--threads" => cfg.threads = val().parse().unwrap_or(16),
            "--out" => cfg.out = val(),
            "--max-paths" => cfg.max_paths = val().parse().unwrap_or(20000),
            "--pattern" => cfg.only_pattern = Some(val()),
            "--max-patterns" => cfg.max_patterns = val().parse().unwrap_or(usize::MAX),
            "--verbose" => cfg.verbose = true,
            _ => {
                eprintln!("unknown argument {}", a);
                std::process::exit(2);
            }
        }
        i += 1;
    }
    cfg
}

pub fn main() {
    let cfg = parse_args();
    engine::install_panic_hook();
    if cfg.prop == "REFVAL" {
        crate::props::refval(&cfg);
        return;
    }
    let cfg = Arc::new(cfg);
    let t0 = Instant::now();
    let work = crate::corpus::work_list(&cfg);
    let fixed_len = work.fixed.len();
    let next = Arc::new(AtomicUsize::new(0));
    let stop = Arc::new(AtomicBool::new(false));
    let reports: Arc<Mutex<Vec<crate::props::PatReport>>> = Arc::new(Mutex::new(Vec::new()));
    let stats: Arc<Mutex<engine::Stats>> = Arc::new(Mutex::new(engine::Stats::default()));
    let work = Arc::new(work);
    let deadline = t0 + Duration::from_secs_f64(cfg.budget_s);
    let mut handles = Vec::new();
    for _w in 0..cfg.threads {
        let cfg = cfg.clone();
        let next = next.clone();
        let stop = stop.clone();
        let reports = reports.clone();
        let stats = stats.clone();
        let work = work.clone();
        handles.push(
            std::thread::Builder::new()
                .stack_size(256 << 20)
                .spawn(move || {
                    loop {
                        if stop.load(Ordering::Relaxed) {
                            break;
                        }
                        let i = next.fetch_add(1, Ordering::SeqCst);
                        if i >= cfg.max_patterns {
                            break;
                        }
                        let item = if i < work.fixed.len() {
                            work.fixed[i].clone()
                        } else {
                            if Instant::now() >= deadline || !work.random_enabled {
                                break;
                            }
                            crate::corpus::random_item(&cfg, &work, i - work.fixed.len())
                        };
                        // the fixed part is always completed; only a hard cap stops it (8x the
                        // budget, at least 25 minutes: a loaded machine must not turn a pass
                        // into an inconclusive run); what it cuts off is listed as not covered
                        if i < work.fixed.len() && t0.elapsed().as_secs_f64() > (cfg.budget_s * 8.0).max(1500.0) {
                            let mut r = crate::props::PatReport::new(&item);
                            r.status = "not-covered-time".to_string();
                            reports.lock().unwrap().push(r);
                            continue;
                        }
                        let r = crate::props::process(&cfg, &item);
                        reports.lock().unwrap().push(r);
                    }
                    let s = engine::take_stats();
                    let mut g = stats.lock().unwrap();
                    g.queries += s.queries;
                    g.solver_s += s.solver_s;
                    g.paths += s.paths;
                    g.decides += s.decides;
                    g.forced += s.forced;
                    g.branches += s.branches;
                    g.closing_queries += s.closing_queries;
                    g.closing_ok += s.closing_ok;
                    g.models += s.models;
                    engine::shutdown();
                })
                .unwrap(),
        );
    }
    for h in handles {
        let _ = h.join();
    }
    let wall = t0.elapsed().as_secs_f64();
    let reports = reports.lock().unwrap();
    let stats = stats.lock().unwrap();
    crate::props::write_output(&cfg, &reports, &stats, wall, fixed_len);
}
