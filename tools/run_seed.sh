#!/bin/sh
# run_seed.sh <seed-dir> <prop>... : apply the seeded change to /repo, run the checks, undo it.
SEED=$1; shift
cd /verif
git -C /repo diff --quiet || { echo "/repo is dirty"; exit 9; }
git -C /repo apply /verif/$SEED/patch.diff || { echo "patch does not apply"; exit 9; }
for P in "$@"; do
  echo "--- $SEED vs $P"
  VERIF_BUDGET_S=${SEED_BUDGET:-25} ./check $P quick > work/seed_out.txt 2>&1; rc=$?
  grep -E "counterexample|VIOLATION|INCONCLUSIVE|KNOWN|^OK" work/seed_out.txt | head -6 | cut -c1-400
  echo "exit=$rc"
done
git -C /repo checkout -- .
