#!/usr/bin/env python3
"""Regenerate /verif/MANIFEST.json from the table below (keeps the file valid and uniform)."""
import json, os
ROOT = os.path.dirname(os.path.dirname(os.path.abspath(__file__)))

COMMON_NOTE = ("Trusted: z3 (QF_BV), the textual rewrite rules that make vm::run generic over the text type (validated on every source change by the "
               "repository's own tests on the rewritten tree), refsem.rs as the reference semantics, hirmodel.rs as the model of regex-automata "
               "(validated on every explored path by a concrete run through the real regex-automata). Bounded: texts of at most N bytes "
               "(all UTF-8 layouts, every byte free), pattern structure generated concretely (exhaustive small, context x filler, seeded random). "
               "Counterexamples are replayed on the unmodified /repo build (dev and release) before a VIOLATION is printed.")

P = {
 "C01": ("real VM program (or wrapped automaton model) vs reference matcher on every symbolic path: existence and overall span, every start offset", "1.1, 2 C01"),
 "C02": ("as C01 with every capture group compared (patterns whose backrefs refer to closed groups)", "2 C02"),
 "C03": ("twin programs: base pattern vs the same pattern with (?=) inserted at every site (and random multi-site); both compiled by the real pipeline and run on the same symbolic text; span and all groups equal", "2 C03"),
 "C04": ("common-syntax patterns (incl. \\b, which the VM interprets itself): real result vs hirmodel of regex-syntax's parse of the raw pattern = the regex crate's leftmost-first answer; the concrete side also asks the real regex-automata; wrappers (find_iter/split/replace) are covered under C08-C11", "2 C04"),
 "C05": ("unrestricted grammar: every path runs under catch_unwind with overflow checks; reported spans must satisfy start<=end<=len on character boundaries (decided on the symbolic lead-byte constraints)", "2 C05"),
 "C07": ("unlimited run's backtrack count b is concrete on each path; limits {0,1,2,3,5,10,100,10^6,b-1,b} re-run under the same path condition: BacktrackLimitExceeded or the unlimited answer, exact threshold at b; step bound; no limit error with default limits when the reference exploration is tiny", "2 C07"),
 "C13": ("(a) for every sub-expression: all match lengths the reference matcher can produce on the symbolic text vs the analyzer's min_size/const_size; (b) realisable lengths of each look-behind alternative vs acceptance by the real compiler; (c) differential of accepted look-behind patterns with the reference over multi-byte layouts", "2 C13"),
 "C14": ("twin programs: P built with case_insensitive(true) vs (?i)P, same symbolic text (all byte values, so both cases of every letter); builder options: delegate size limits accepted/rejected exactly as regex-automata judges each delegated piece, in either order of the calls (concrete per pattern), default vs generous limits as twin programs", "2 C14"),
 "C15": ("as C02 with both conditional forms at every nesting position; refsem implements the documented rule", "2 C15"),
 "C17": ("escape(s) for every s up to 2 (quick) / 3 (thorough) characters over the meta characters + letter, digit, space, '-', 2/3/4-byte characters, alone and embedded in plain and fancy hosts: reported span equals the first literal occurrence of s on the symbolic text", "2 C17"),
 "C19": ("twin programs: default spelling vs respelling (possessive sugar, named groups and \\k<>, relative backrefs, ^/$ vs \\A/\\z, hex escapes, free-spacing, comments, inline flags) printed from the parsed tree; tree equality checked concretely, behaviour on symbolic text", "2 C19"),
 "C08": ("the real Matches::next is driven to exhaustion on a placeholder text of the same UTF-8 layout while every search it makes is redirected to the symbolic text (real VM / automaton model): whole yielded sequence vs the reference iteration (refsem leftmost match from the previous end, step after empty match, drop adjacent empty match, \\G via the skipped flag), strictly increasing / non-overlapping, termination within len+4 items, nothing after Err, prefix property under tiny backtrack limits", "2 C08"),
 "C09": ("real is_match / find / captures / find_from_pos / captures_from_pos / find_iter / captures_iter executed over the symbolic VM on every path and every offset; mutual coherence asserted", "2 C09"),
 "C10": ("real Split::next / SplitN::next (limits 0..5) over the symbolic VM: pieces equal the substrings between the find_iter matches of the same path plus the tail, contiguous cover of the text, splitn = min(n, pieces) items with the untouched remainder last", "2 C10"),
 "C11": ("real try_replacen over the symbolic VM, limits 0..3, replacers NoExpand / plain string / closure / <$0>: output equals the model built from the matches of the same path, borrowed iff no match, the three $-free replacers agree, search errors come back as Err", "2 C11"),
 "C16": ("concretely per pattern: captures_len == 1 + groups == capture_names().count(), names at their indices; on every symbolic path: Captures::len == captures_len, iter() == get(i), get(0) Some, get(i>=len) None, name(n) == get(index) -- for VM-compiled and wrapped patterns", "2 C16"),
 "C12": ("TEMPLATE: the real template scanner (Expander::exec, check, escape, parse_id, parse_decimal; rules T1-T20 make them generic over the string type) runs on a symbolic template of at most N bytes (4 quick, 6 thorough) against real captures (9 regexes: numbered, named, mixed, unmatched, >= 10 groups, wrapped and VM): expansion through all five entry points equals the documented interpretation (props4.rs reference scanner), check accepts only templates whose references exist, expand(escape(s)) == s; both expanders", "2 C12"),
 "C20": ("shadow whole-state-copy model (slots, auxiliary stack, alternatives) compared with the real State after every push/pop/save/cut inside the real run, on every feasible operation history the corpus programs generate; counterexample histories are replayed through the cfg-guarded VState wrapper on the real build", "2 C20"),
}

checks = []
for pid in sorted(P):
    text, ref = P[pid]
    lead = "Bounded symbolic execution of the repository's real vm.rs (N=3 bytes quick, 5 thorough; z3 decides every branch, closing coverage query per exploration): "
    tech = "symbolic execution of the real VM source with z3 over all texts <= N bytes, per concrete pattern; oracle under the same path condition; native replay"
    if text.startswith("TEMPLATE: "):
        text = text[len("TEMPLATE: "):]
        lead = "Bounded symbolic execution of the repository's real expand.rs / parse_id / parse_decimal (z3 decides every branch, closing coverage query per exploration): "
        tech = "symbolic execution of the real template scanner source with z3 over all templates <= N bytes, per concrete captures; reference under the same path condition; native replay"
    checks.append({
        "property_id": pid,
        "quick_cmd": "./check %s quick" % pid,
        "thorough_cmd": "./check %s thorough" % pid,
        "evidence_file": "evidence/%s.json" % pid,
        "replay_cmd_template": "./check %s --replay {path}" % pid,
        "engine": "SYMX",
        "level_claimed": {"category": "model_checking",
                          "text": lead + text,
                          "design_ref": "DESIGN.md " + ref},
        "level_note": COMMON_NOTE,
        "technique": tech,
    })

m = {
 "version": 1,
 "setup_cmd": "./setup.sh",
 "hooks": {
  "guard": "fancy_regex_verif",
  "enable": "RUSTFLAGS=\"--cfg fancy_regex_verif\" (only the native replay of C20 counterexamples -- operation histories through VState, whole searches under the snapshot observer -- uses the hook build; SYMX itself instruments a generated copy of /repo/src under /verif/work, see symx/gen.py)",
  "baseline_off_cmd": "cd /repo && cargo test --workspace --no-fail-fast --offline",
  "source_commits": ["cee1dbb", "dbe119d"],
  "add_only": True
 },
 "engines": [
  {"name": "SYMX", "path": "symx/", "serves_properties": sorted(P),
   "kind_free_text": "dynamic symbolic execution of the real vm.rs and of the real template scanner in expand.rs / parse.rs (generic-over-text rewrite regenerated from /repo on every run), one live z3 -in per worker deciding every branch, closing coverage query, per-path concrete cross-check against the real regex-automata, native replay of counterexamples on the unmodified /repo build"}
 ],
 "checks": checks,
 "not_applicable": [
  {"property_id": "C06", "reason": "quantifies over pattern strings; parser/analyzer/regex-automata builder cannot be executed symbolically within reach (measured, DESIGN.md 2 C06)"},
  {"property_id": "C18", "reason": "concurrency: Kani/CBMC do not model Rust threads, SYMX is single-threaded re-execution; the shared state lives in regex-automata's Pool"},
 ],
 "notes": "Known findings are in known_findings.json (status known/fixed). Exit codes: 0 held, 1 VIOLATION (reproduced natively), 2 inconclusive."
}
EXTRA = os.path.join(ROOT, "tools", "manifest_extra.json")
if os.path.exists(EXTRA):
    ex = json.load(open(EXTRA))
    have = {c["property_id"] for c in m["checks"]}
    for c in ex.get("checks", []):
        if c["property_id"] not in have:
            m["checks"].append(c)
    claimed = {c["property_id"] for c in m["checks"]}
    m["not_applicable"] = [n for n in m["not_applicable"] + ex.get("not_applicable", []) if n["property_id"] not in claimed]
    m["engines"] += ex.get("engines", [])
json.dump(m, open(os.path.join(ROOT, "MANIFEST.json"), "w"), indent=1)
print("checks:", [c["property_id"] for c in m["checks"]])
