#!/bin/sh
# confirm_seed.sh <worktree> <outdir>: the patch applies, the existing suite passes with it,
# the demo fails with it and passes without it.
WT=$1; OUT=$2
cd $WT || exit 9
git checkout -q -- . ; rm -f tests/demo.rs
git apply --check $OUT/patch.diff || { echo "PATCH-DOES-NOT-APPLY"; exit 1; }
cp $OUT/demo.rs tests/demo.rs
echo "--- demo on clean tree"
CARGO_NET_OFFLINE=true cargo test --offline --test demo 2>&1 | grep -E "^test result|error(\[|:)" | head -3
git apply $OUT/patch.diff
echo "--- demo with change"
CARGO_NET_OFFLINE=true cargo test --offline --test demo 2>&1 | grep -E "^test result|error(\[|:)" | head -3
rm -f tests/demo.rs
echo "--- existing suite with change"
CARGO_NET_OFFLINE=true cargo test --offline 2>&1 | grep -E "^test result|FAILED" | tr '\n' ' '
echo
git checkout -q -- . ; git status --short | head -3
