#!/usr/bin/env python3
"""Extract (kind, pattern, text, args) from the repository's Oniguruma corpus
(tests/oniguruma/test_utf8.c minus the cases listed in test_utf8_ignore.c) as TSV with
hex-encoded strings, for the validation of the reference matcher (refsem)."""
import re, sys
def unescape(s):
    out = bytearray(); i = 0
    while i < len(s):
        c = s[i]
        if c == '\\':
            n = s[i+1]
            if n in '\\"?': out += n.encode(); i += 2
            elif n == 'n': out.append(10); i += 2
            elif n == 'r': out.append(13); i += 2
            elif n == 't': out.append(9); i += 2
            elif n == 'f': out.append(12); i += 2
            elif n == 'v': out.append(11); i += 2
            elif n == 'a': out.append(7); i += 2
            elif n == 'x':
                out.append(int(s[i+2:i+4], 16)); i += 4
            elif n in '01234567':
                j = i + 1
                while j < len(s) and j < i + 4 and s[j] in '01234567': j += 1
                out.append(int(s[i+1:j], 8)); i = j
            else:
                return None
        else:
            out += c.encode(); i += 1
    try:
        return out.decode('utf-8')
    except UnicodeDecodeError:
        return None
cs = r'"((?:\\\\|\\"|[^"])*)"'
rx = re.compile(r'^\s*((x2|x3|n)\(%s,\s*%s,?([^\)]*)\);)' % (cs, cs), re.M)
def cases(path):
    for m in rx.finditer(open(path, encoding='utf-8', errors='replace').read()):
        yield m.group(1), m.group(2), m.group(3), m.group(4), [a.strip() for a in m.group(5).split(',') if a.strip()]
repo = sys.argv[1]
ignored = {c[0] for c in cases(repo + '/tests/oniguruma/test_utf8_ignore.c')}
n = 0
for src, kind, p, t, args in cases(repo + '/tests/oniguruma/test_utf8.c'):
    if src in ignored: continue
    pu, tu = unescape(p), unescape(t)
    if pu is None or tu is None: continue
    try: a = [int(x) for x in args]
    except ValueError: continue
    print('\t'.join([kind, pu.encode().hex(), tu.encode().hex()] + [str(x) for x in a]))
    n += 1
sys.stderr.write('%d cases\n' % n)
