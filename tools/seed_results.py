#!/usr/bin/env python3
"""Collect the verdicts of ./check runs against the seeded changes (work/seeds*.log, in
chronological order: the latest run of a (seed, property) pair wins) into seeded/RESULTS.md
and into each seed's meta.json."""
import glob, json, os, re
ROOT = os.path.dirname(os.path.dirname(os.path.abspath(__file__)))
res = {}
order = sorted(glob.glob(os.path.join(ROOT, "work", "seeds*.log")), key=lambda p: int(re.findall(r"seeds(\d+)", p)[0]))
for path in order:
    cur = None
    for line in open(path, errors="replace"):
        m = re.match(r"--- seeded/(\S+) vs (\S+)", line)
        if m:
            cur = (m.group(1), m.group(2))
            res[cur] = {"verdict": "?", "witness": ""}
            continue
        if cur is None:
            continue
        if "counterexample:" in line and not res[cur]["witness"]:
            res[cur]["witness"] = line.strip()[len("counterexample: "):][:220]
        m = re.match(r"exit=(\d+)", line)
        if m:
            res[cur]["verdict"] = {"0": "missed (exit 0)", "1": "VIOLATION (exit 1)", "2": "inconclusive (exit 2)"}.get(m.group(1), m.group(1))
seeds = sorted({s for s, _ in res})
lines = ["# Seeded changes vs checks", "",
         "Each seeded change was produced by an independent sub-agent that saw only the property text and a scratch worktree;",
         "it compiles, passes the repository's unedited test suite and fails its own demonstration (confirmed by tools/confirm_seed.sh).",
         "Runs: `tools/run_seed.sh seeded/<id> <property>...` (quick tier, 25 s random budget, VERIF_SEED=0).", "",
         "| seed | change | property | verdict | first counterexample |", "|---|---|---|---|---|"]
for s in seeds:
    meta_p = os.path.join(ROOT, "seeded", s, "meta.json")
    meta = json.load(open(meta_p)) if os.path.exists(meta_p) else {}
    summ = (meta.get("summary") or "")[:160].replace("|", "\\|").replace("\n", " ")
    runs = {}
    for (ss, p), r in sorted(res.items()):
        if ss != s:
            continue
        runs[p] = r["verdict"]
        lines.append("| %s | %s | %s | %s | %s |" % (s, summ, p, r["verdict"], r["witness"].replace("|", "\\|")))
        summ = "〃"
    if meta:
        meta["checks_run"] = runs
        json.dump(meta, open(meta_p, "w"), indent=1, ensure_ascii=False)
open(os.path.join(ROOT, "seeded", "RESULTS.md"), "w").write("\n".join(lines) + "\n")
print("\n".join(lines[7:]))
