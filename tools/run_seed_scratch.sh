#!/bin/sh
# run_seed_scratch.sh <seed-dir> <prop>... : apply the seeded change to a scratch copy of /repo
# (never /repo itself), run the checks against the copy, remove the copy and its build output.
SEED=$1; shift
NAME=$(basename $SEED)
SR=/tmp/seedrepo-$NAME; SW=/tmp/seedwork-$NAME
rm -rf $SR $SW; mkdir -p $SR $SW
cp -r /repo/src /repo/tests /repo/Cargo.toml /repo/Cargo.lock $SR/
[ -d /repo/benches ] && cp -r /repo/benches $SR/
(cd $SR && patch -p1 -s < /verif/$SEED/patch.diff) || { echo "patch does not apply"; rm -rf $SR $SW; exit 9; }
# warm build caches (copy of the main work dir's targets, if present)
[ -d /verif/work/symx ] && cp -r /verif/work/symx $SW/symx
[ -d /verif/work/replay-target ] && cp -r /verif/work/replay-target $SW/replay-target
cd /verif
for P in "$@"; do
  echo "--- $SEED vs $P"
  VERIF_REPO=$SR VERIF_WORK=$SW VERIF_BUDGET_S=${SEED_BUDGET:-25} VERIF_THREADS=${SEED_THREADS:-8} ./check $P quick > $SW/seed_out.txt 2>&1; rc=$?
  grep -E "counterexample|VIOLATION|INCONCLUSIVE|KNOWN|^OK" $SW/seed_out.txt | head -6 | cut -c1-400
  echo "exit=$rc"
done
rm -rf $SR $SW
