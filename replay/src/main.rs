//! Native replay of solver counterexamples against the *unmodified* /repo build.
//!
//! Input (file given as argv[1]): one case per line, tab separated:
//!   op  pattern_hex  casei(0/1)  limit(or -)  text_hex  pos  arg
//! Output: one line per case with the canonical result string.
use fancy_regex::{Captures, NoExpand, Regex, RegexBuilder};
use std::panic::{catch_unwind, AssertUnwindSafe};

fn unhex(s: &str) -> String {
    let b: Vec<u8> = (0..s.len() / 2).map(|i| u8::from_str_radix(&s[2 * i..2 * i + 2], 16).unwrap()).collect();
    String::from_utf8(b).expect("utf8")
}

fn err_name(e: &fancy_regex::Error) -> String {
    match e {
        fancy_regex::Error::RuntimeError(fancy_regex::RuntimeError::StackOverflow) => "StackOverflow".to_string(),
        fancy_regex::Error::RuntimeError(fancy_regex::RuntimeError::BacktrackLimitExceeded) => {
            "BacktrackLimitExceeded".to_string()
        }
        other => format!("{:?}", other),
    }
}

fn caps_canon(c: &Captures) -> String {
    let mut s = String::from("M");
    for i in 0..c.len() {
        match c.get(i) {
            None => s.push_str("[-]"),
            Some(m) => s.push_str(&format!("[{},{}]", m.start(), m.end())),
        }
    }
    s
}

fn seq_find_iter(re: &Regex, text: &str) -> String {
    let mut s = String::new();
    for (k, m) in re.find_iter(text).enumerate() {
        match m {
            Ok(m) => s.push_str(&format!("[{},{}]", m.start(), m.end())),
            Err(e) => s.push_str(&format!("E:{};", err_name(&e))),
        }
        if k > text.len() + 4 {
            break;
        }
    }
    s
}

fn seq_captures_iter0(re: &Regex, text: &str) -> String {
    let mut s = String::new();
    for (k, c) in re.captures_iter(text).enumerate() {
        match c {
            Ok(c) => match c.get(0) {
                Some(m) => s.push_str(&format!("[{},{}]", m.start(), m.end())),
                None => s.push_str("E:group 0 missing;"),
            },
            Err(e) => s.push_str(&format!("E:{};", err_name(&e))),
        }
        if k > text.len() + 4 {
            break;
        }
    }
    s
}

fn coherence(re: &Regex, s: &str, pos: usize) -> String {
    let mut parts: Vec<String> = Vec::new();
    let span = |r: fancy_regex::Result<Option<fancy_regex::Match>>| match r {
        Ok(Some(m)) => format!("M[{},{}]", m.start(), m.end()),
        Ok(None) => "N".to_string(),
        Err(e) => format!("E:{}", err_name(&e)),
    };
    let cspan = |r: fancy_regex::Result<Option<Captures>>| match r {
        Ok(Some(c)) => match c.get(0) {
            Some(m) => format!("M[{},{}]", m.start(), m.end()),
            None => "M[-]".to_string(),
        },
        Ok(None) => "N".to_string(),
        Err(e) => format!("E:{}", err_name(&e)),
    };
    parts.push(format!("find_from_pos={}", span(re.find_from_pos(s, pos))));
    parts.push(format!("captures_from_pos0={}", cspan(re.captures_from_pos(s, pos))));
    if pos == 0 {
        let im = match re.is_match(s) {
            Ok(b) => format!("{}", b),
            Err(e) => format!("E:{}", err_name(&e)),
        };
        parts.push(format!("is_match={}", im));
        parts.push(format!("find={}", span(re.find(s))));
        parts.push(format!("captures0={}", cspan(re.captures(s))));
        parts.push(format!("find_iter={}", seq_find_iter(re, s)));
        parts.push(format!("captures_iter0={}", seq_captures_iter0(re, s)));
    }
    parts.join(";")
}

fn meta_canon(re: &Regex, names: &[(String, usize)], s: &str, pos: usize) -> String {
    let mut parts: Vec<String> = Vec::new();
    parts.push(format!("captures_len={}", re.captures_len()));
    match re.captures_from_pos(s, pos) {
        Ok(Some(c)) => {
            parts.push(format!("len={}", c.len()));
            let gets: Vec<String> = (0..c.len() + 2)
                .map(|i| match c.get(i) {
                    Some(m) => format!("[{},{}]", m.start(), m.end()),
                    None => "[-]".to_string(),
                })
                .collect();
            parts.push(format!("get={}", gets.join("")));
            let iters: Vec<String> = c
                .iter()
                .map(|m| match m {
                    Some(m) => format!("[{},{}]", m.start(), m.end()),
                    None => "[-]".to_string(),
                })
                .collect();
            parts.push(format!("iter={}", iters.join("")));
            let nm: Vec<String> = names
                .iter()
                .map(|(n, i)| {
                    let a = c.name(n).map(|m| (m.start(), m.end()));
                    let b = c.get(*i).map(|m| (m.start(), m.end()));
                    format!("{}:{}", n, if a == b { "same" } else { "DIFFERENT" })
                })
                .collect();
            parts.push(format!("name={}", nm.join(",")));
        }
        Ok(None) => parts.push("N".to_string()),
        Err(e) => parts.push(format!("E:{}", err_name(&e))),
    }
    parts.join(";")
}

fn build(pattern: &str, casei: bool, limit: Option<usize>) -> Result<Regex, String> {
    let mut b = RegexBuilder::new(pattern);
    if casei {
        b.case_insensitive(true);
    }
    if let Some(l) = limit {
        b.backtrack_limit(l);
    }
    b.build().map_err(|e| format!("{:?}", e))
}

const TPL_HAY: &str = "ab\u{20ac}c";

fn hexs(b: &[u8]) -> String {
    b.iter().map(|x| format!("{:02x}", x)).collect()
}

/// C12: template operations; `text` is the template, the captures come from the fixed haystack.
fn tpl(op: &str, re: &Regex, template: &str) -> String {
    use fancy_regex::Expander;
    let rest = &op["tpl_".len()..];
    let (what, kind) = rest.rsplit_once('_').unwrap_or((rest, "default"));
    let py = kind == "python";
    let exp = if py { Expander::python() } else { Expander::default() };
    let caps = match re.captures(TPL_HAY) {
        Ok(Some(c)) => c,
        _ => return "NO-CAPTURES".to_string(),
    };
    let siblings = || {
        let s1 = exp.expansion(template, &caps);
        let mut s2 = String::from("p");
        exp.append_expansion(&mut s2, template, &caps);
        let mut v3: Vec<u8> = Vec::new();
        exp.write_expansion(&mut v3, template, &caps).expect("write");
        let mut v4: Vec<u8> = Vec::new();
        exp.write_expansion_vec(&mut v4, template, &caps).expect("write");
        let mut s5 = String::new();
        if !py {
            caps.expand(template, &mut s5);
        } else {
            s5 = s1.clone();
        }
        format!("S:{}|{}|{}|{}|{}", hexs(s1.as_bytes()), hexs(s2.as_bytes()), hexs(&v3), hexs(&v4), hexs(s5.as_bytes()))
    };
    match what {
        "expand" => format!("O:{}", hexs(exp.expansion(template, &caps).as_bytes())),
        "siblings" => siblings(),
        "check" => match exp.check(template, re) {
            Ok(()) => "OK".to_string(),
            Err(_) => "ERR".to_string(),
        },
        "escape" => format!("O:{}", hexs(exp.expansion(&exp.escape(template), &caps).as_bytes())),
        "all" => {
            let _ = siblings();
            let _ = exp.check(template, re);
            let _ = exp.expansion(&exp.escape(template), &caps);
            "DONE".to_string()
        }
        _ => "BAD-OP".to_string(),
    }
}

fn run(op: &str, re: &Regex, text: &str, pos: usize, arg: usize) -> String {
    if op.starts_with("tpl_") {
        return tpl(op, re, text);
    }
    match op {
        "search" => match re.captures_from_pos(text, pos) {
            Ok(Some(c)) => {
                // exercise the accessors the property mentions
                for i in 0..c.len() {
                    if let Some(m) = c.get(i) {
                        let _ = m.as_str();
                    }
                }
                caps_canon(&c)
            }
            Ok(None) => "N".to_string(),
            Err(e) => format!("E:{}", err_name(&e)),
        },
        "find" => match re.find_from_pos(text, pos) {
            Ok(Some(m)) => {
                let _ = m.as_str();
                format!("M[{},{}]", m.start(), m.end())
            }
            Ok(None) => "N".to_string(),
            Err(e) => format!("E:{}", err_name(&e)),
        },
        "is_match" => match re.is_match(text) {
            Ok(b) => format!("{}", b),
            Err(e) => format!("E:{}", err_name(&e)),
        },
        "find_iter" => {
            // same bound as the symbolic driver: a correct iterator yields at most len + 2 items
            let mut s = String::new();
            let mut k = 0;
            for m in re.find_iter(text) {
                match m {
                    Ok(m) => {
                        let _ = m.as_str();
                        s.push_str(&format!("[{},{}]", m.start(), m.end()))
                    }
                    Err(e) => s.push_str(&format!("E:{};", err_name(&e))),
                }
                k += 1;
                if k > text.len() + 4 {
                    break;
                }
            }
            s
        }
        "captures_iter" => {
            let mut s = String::new();
            for c in re.captures_iter(text).take(text.len() + 5) {
                match c {
                    Ok(c) => {
                        s.push_str(&caps_canon(&c));
                        s.push(';')
                    }
                    Err(e) => s.push_str(&format!("E:{};", err_name(&e))),
                }
            }
            s
        }
        "split" => {
            let mut s = String::new();
            for p in re.split(text).take(text.len() + 7) {
                match p {
                    Ok(p) => {
                        let off = p.as_ptr() as usize - text.as_ptr() as usize;
                        s.push_str(&format!("[{},{}]", off, off + p.len()))
                    }
                    Err(e) => s.push_str(&format!("E:{};", err_name(&e))),
                }
            }
            s
        }
        "splitn" => {
            let mut s = String::new();
            for p in re.splitn(text, arg).take(text.len() + 7) {
                match p {
                    Ok(p) => {
                        let off = p.as_ptr() as usize - text.as_ptr() as usize;
                        s.push_str(&format!("[{},{}]", off, off + p.len()))
                    }
                    Err(e) => s.push_str(&format!("E:{};", err_name(&e))),
                }
            }
            s
        }
        "replacen_noexpand" | "replacen_str" | "replacen_closure" | "replacen_dollar0" | "replacen_dollardollar" | "replacen_group1" | "replacen_braced"
        | "replacen_unicode_name" | "replacen_string" | "replacen_trailing_dollar" => {
            let r = match op {
                "replacen_unicode_name" => re.try_replacen(text, arg, "<$\u{e9}x>"),
                "replacen_string" => re.try_replacen(text, arg, String::from("x")),
                "replacen_trailing_dollar" => re.try_replacen(text, arg, "a$"),
                "replacen_noexpand" => re.try_replacen(text, arg, NoExpand("x")),
                "replacen_str" => re.try_replacen(text, arg, "x"),
                "replacen_closure" => re.try_replacen(text, arg, |_: &Captures| "x".to_string()),
                "replacen_dollar0" => re.try_replacen(text, arg, "<$0>"),
                "replacen_dollardollar" => re.try_replacen(text, arg, "$$"),
                "replacen_group1" => re.try_replacen(text, arg, "[$1]"),
                _ => re.try_replacen(text, arg, "${1}a$$"),
            };
            match r {
                Ok(c) => {
                    let borrowed = matches!(c, std::borrow::Cow::Borrowed(_));
                    format!("{}:{}", if borrowed { "B" } else { "O" }, c.as_bytes().iter().map(|b| format!("{:02x}", b)).collect::<String>())
                }
                Err(e) => format!("E:{}", err_name(&e)),
            }
        }
        "captures_len" => format!("{}", re.captures_len()),
        "entry_points" => {
            // every public entry point; a panic is caught by the caller and printed as PANIC
            let _ = run("find_iter", re, text, pos, arg);
            let _ = run("captures_iter", re, text, pos, arg);
            let _ = run("split", re, text, pos, arg);
            let _ = run("splitn", re, text, pos, 2);
            for n in 0..4 {
                for op in ["replacen_noexpand", "replacen_str", "replacen_closure", "replacen_dollar0", "replacen_dollardollar", "replacen_group1", "replacen_braced",
                           "replacen_unicode_name", "replacen_string", "replacen_trailing_dollar"] {
                    let _ = run(op, re, text, pos, n);
                }
            }
            for n in 0..6 {
                let _ = run("splitn", re, text, pos, n);
            }
            if let Ok(Some(c)) = re.captures(text) {
                let _ = &c[0];
            }
            "OK".to_string()
        }
        "coherence" => coherence(re, text, pos),
        "captures_meta" => {
            let mut names: Vec<(String, usize)> =
                re.capture_names().enumerate().filter_map(|(i, n)| n.map(|s| (s.to_string(), i))).collect();
            names.sort();
            meta_canon(re, &names, text, pos)
        }
        "names_meta" => {
            let names: Vec<Option<String>> = re.capture_names().map(|n| n.map(|s| s.to_string())).collect();
            format!("{};{:?}", re.captures_len(), names)
        }
        "search_vs_regex" => {
            let mine = run("search", re, text, pos, arg);
            let theirs = match regex::Regex::new(re.as_str()) {
                Err(e) => format!("REGEX-ERR:{}", e),
                Ok(rr) => match rr.captures_at(text, pos) {
                    None => "N".to_string(),
                    Some(c) => {
                        let mut s = String::from("M");
                        for i in 0..c.len() {
                            match c.get(i) {
                                None => s.push_str("[-]"),
                                Some(m) => s.push_str(&format!("[{},{}]", m.start(), m.end())),
                            }
                        }
                        s
                    }
                },
            };
            format!("{}|{}", mine, theirs)
        }
        _ => format!("UNKNOWN-OP {}", op),
    }
}

/// Operations that do not work on a single built regex.
fn special(op: &str, pattern: &str, casei: bool, limit: Option<usize>, text: &str, pos: usize, arg: usize) -> Option<String> {
    match op {
        "search_pair" => {
            let mut it = pattern.split('\u{1}');
            let a = it.next().unwrap_or("");
            let b = it.next().unwrap_or("");
            let ra = match build(a, casei, limit) {
                Err(e) => format!("BUILD-ERR:{}", e),
                Ok(re) => run("search", &re, text, pos, arg),
            };
            let rb = match build(b, false, limit) {
                Err(e) => format!("BUILD-ERR:{}", e),
                Ok(re) => run("search", &re, text, pos, arg),
            };
            Some(format!("{}|{}", ra, rb))
        }
        "build_opts" => {
            // delegate_size_limit = limit; arg 1: followed by delegate_dfa_size_limit,
            // arg 2: preceded by it
            let l = limit.unwrap_or(0);
            let dfa = if l >= (1 << 28) { 1usize << 28 } else { 1usize << 22 };
            let mut b = RegexBuilder::new(pattern);
            if l >= (1 << 28) {
                b.backtrack_limit(999_999);
            }
            match arg {
                0 => {
                    b.delegate_size_limit(l);
                }
                1 => {
                    b.delegate_size_limit(l).delegate_dfa_size_limit(dfa);
                }
                _ => {
                    b.delegate_dfa_size_limit(dfa).delegate_size_limit(l);
                }
            }
            Some(match b.build() {
                Ok(_) => "OK".to_string(),
                Err(_) => "ERR".to_string(),
            })
        }
        "build" => Some(match build(pattern, casei, limit) {
            Ok(_) => "OK".to_string(),
            Err(e) => format!("ERR:{}", e),
        }),
        "build_pair" => {
            let mut it = pattern.split('\u{1}');
            let a = it.next().unwrap_or("");
            let b = it.next().unwrap_or("");
            let f = |p: &str, ci: bool| if build(p, ci, limit).is_ok() { "OK" } else { "ERR" };
            Some(format!("{}|{}", f(a, casei), f(b, false)))
        }
        "tree_pair" => {
            let mut it = pattern.split('\u{1}');
            let a = it.next().unwrap_or("");
            let b = it.next().unwrap_or("");
            match (fancy_regex::Expr::parse_tree(a), fancy_regex::Expr::parse_tree(b)) {
                (Ok(x), Ok(y)) => Some(if x.expr == y.expr { "EQ".to_string() } else { "NE".to_string() }),
                _ => Some("PARSE-ERR".to_string()),
            }
        }
        "parse_debug" => Some(match fancy_regex::Expr::parse_tree(pattern) {
            Ok(t) => format!("{:?}", t.expr),
            Err(e) => format!("PARSE-ERR:{:?}", e),
        }),
        "escape" => {
            let e = fancy_regex::escape(pattern);
            let borrowed = matches!(e, std::borrow::Cow::Borrowed(_));
            Some(format!("{}:{}", if borrowed { "B" } else { "O" }, e))
        }
        "state_history" => Some(state_history(pattern)),
        "state_observed" => Some(state_observed(pattern, text, pos)),
        _ => None,
    }
}

#[cfg(not(fancy_regex_verif))]
fn state_history(_spec: &str) -> String {
    "NO-HOOKS".to_string()
}

#[cfg(not(fancy_regex_verif))]
fn state_observed(_spec: &str, _text: &str, _pos: usize) -> String {
    "NO-HOOKS".to_string()
}

/// Run the real search of the pattern (third field of the spec) under the cfg-guarded
/// observer of /repo: every alternative is snapshotted (whole saves vector) when it is
/// created; when it is resumed the real state must equal the snapshot; a commit must leave
/// exactly the alternatives it names.
#[cfg(fancy_regex_verif)]
fn state_observed(spec: &str, text: &str, pos: usize) -> String {
    use fancy_regex::internal::verif_hooks::{set_observer, Op};
    use std::cell::RefCell;
    use std::rc::Rc;
    let pattern = spec.split('\u{1}').nth(2).unwrap_or("");
    let re = match Regex::new(pattern) {
        Ok(r) => r,
        Err(e) => return format!("BUILD-ERR:{:?}", e),
    };
    let viol: Rc<RefCell<Vec<String>>> = Rc::new(RefCell::new(Vec::new()));
    let model: Rc<RefCell<Vec<(usize, usize, Vec<usize>)>>> = Rc::new(RefCell::new(Vec::new()));
    let nslots: Rc<RefCell<usize>> = Rc::new(RefCell::new(0));
    let (v2, m2, n2) = (viol.clone(), model.clone(), nslots.clone());
    // the state proper: the program's slots and the live part of the auxiliary stack
    // (saves[n] is its stack pointer, entries above the pointer are dead)
    fn project(saves: &[usize], n: usize) -> Vec<usize> {
        let mut v: Vec<usize> = saves[..n.min(saves.len())].to_vec();
        if saves.len() > n {
            let sp = saves[n];
            if sp >= n + 1 && sp <= saves.len() {
                v.extend_from_slice(&saves[n + 1..sp]);
            } else {
                v.push(usize::MAX - 1);
            }
        }
        v
    }
    set_observer(Some(Box::new(move |op: Op, saves: &[usize], depth: usize| {
        let mut m = m2.borrow_mut();
        let mut v = v2.borrow_mut();
        let n = *n2.borrow();
        match op {
            Op::Start { n_saves } => {
                m.clear();
                *n2.borrow_mut() = n_saves;
                return;
            }
            Op::Push { pc, ix } => m.push((pc, ix, project(saves, n))),
            Op::Pop { pc, ix } => match m.pop() {
                None => v.push("abandon: no alternative left in the model".to_string()),
                Some((ppc, pix, snap)) => {
                    let now = project(saves, n);
                    if (ppc, pix) != (pc, ix) {
                        v.push(format!("abandon: resumed at ({},{}) but the alternative was created as ({},{})", pc, ix, ppc, pix));
                    } else if snap != now {
                        v.push(format!("abandon: state {:?} differs from the state {:?} the alternative was created with", now, snap));
                    }
                }
            },
            Op::Cut { count } => {
                if count > m.len() {
                    v.push(format!("commit: to {} alternatives but only {} exist", count, m.len()));
                }
                m.truncate(count);
            }
        }
        if depth != m.len() {
            v.push(format!("{} alternatives, model {}", depth, m.len()));
        }
    })));
    let _ = re.captures_from_pos(text, pos);
    set_observer(None);
    let v = viol.borrow();
    if v.is_empty() {
        "OK".to_string()
    } else {
        format!("MISMATCH: {}", v[0])
    }
}

/// Drive the real backtracking state (through the cfg-guarded wrapper in /repo) with a
/// recorded operation history and compare it step by step with a whole-state-copy model.
#[cfg(fancy_regex_verif)]
fn state_history(spec: &str) -> String {
    use fancy_regex::internal::verif_hooks::VState;
    let mut it = spec.split('\u{1}');
    let n: usize = it.next().unwrap_or("0").parse().unwrap_or(0);
    let hist = it.next().unwrap_or("");
    let mut st = VState::new(n, 1_000_000);
    let mut cur: Vec<usize> = vec![usize::MAX; n];
    let mut aux: Vec<usize> = Vec::new();
    let mut stack: Vec<(usize, usize, Vec<usize>, Vec<usize>)> = Vec::new();
    for (k, op) in hist.split(';').enumerate() {
        if op.is_empty() {
            continue;
        }
        let (c, rest) = op.split_at(1);
        let nums: Vec<usize> = rest.split(',').filter(|x| !x.is_empty()).map(|x| x.parse().unwrap()).collect();
        match c {
            "P" => {
                st.push(nums[0], nums[1]);
                stack.push((nums[0], nums[1], cur.clone(), aux.clone()));
            }
            "Q" => {
                let got = st.pop();
                match stack.pop() {
                    None => return format!("MISMATCH at step {}: pop on empty model", k),
                    Some((pc, ix, c0, a0)) => {
                        if got != (pc, ix) {
                            return format!("MISMATCH at step {}: pop returned {:?}, created as {:?}", k, got, (pc, ix));
                        }
                        cur = c0;
                        aux = a0;
                    }
                }
            }
            "S" => {
                st.save(nums[0], nums[1]);
                cur[nums[0]] = nums[1];
            }
            "K" => {
                st.stack_push(nums[0]);
                aux.push(nums[0]);
            }
            "L" => {
                let got = st.stack_pop();
                let want = aux.pop();
                if Some(got) != want {
                    return format!("MISMATCH at step {}: auxiliary pop returned {}, model {:?}", k, got, want);
                }
            }
            "C" => {
                st.backtrack_cut(nums[0]);
                stack.truncate(nums[0]);
            }
            "N" => {
                // a negative look-around has just failed: exactly the alternatives created
                // before it was entered must be left
                if st.backtrack_count() != nums[0] {
                    return format!(
                        "MISMATCH at step {}: {} alternatives left after a failing negative look-around, expected {}",
                        k, st.backtrack_count(), nums[0]
                    );
                }
            }
            _ => return format!("BAD-OP {}", op),
        }
        for i in 0..n {
            if st.get(i) != cur[i] {
                return format!("MISMATCH at step {} ({}): slot {} is {}, model {}", k, op, i, st.get(i), cur[i]);
            }
        }
        if st.backtrack_count() != stack.len() {
            return format!("MISMATCH at step {} ({}): {} alternatives, model {}", k, op, st.backtrack_count(), stack.len());
        }
    }
    // unwind everything that is left: every abandoned alternative must restore its state
    while let Some((pc, ix, c0, _a0)) = stack.pop() {
        let got = st.pop();
        if got != (pc, ix) {
            return format!("MISMATCH at unwind: pop returned {:?}, created as {:?}", got, (pc, ix));
        }
        for i in 0..n {
            if st.get(i) != c0[i] {
                return format!("MISMATCH at unwind: slot {} is {}, model {}", i, st.get(i), c0[i]);
            }
        }
    }
    "OK".to_string()
}

fn main() {
    std::panic::set_hook(Box::new(|_| {}));
    let path = std::env::args().nth(1).expect("case file");
    let data = std::fs::read_to_string(path).expect("read");
    for line in data.lines() {
        let f: Vec<&str> = line.split('\t').collect();
        if f.len() < 7 {
            println!("BAD-LINE");
            continue;
        }
        let op = f[0];
        let pattern = unhex(f[1]);
        let casei = f[2] == "1";
        let limit = if f[3] == "-" { None } else { Some(f[3].parse::<usize>().unwrap()) };
        let text = unhex(f[4]);
        let pos: usize = f[5].parse().unwrap();
        let arg: usize = f[6].parse().unwrap();
        let out = catch_unwind(AssertUnwindSafe(|| special(op, &pattern, casei, limit, &text, pos, arg).unwrap_or_else(|| match build(&pattern, casei, limit) {
            Err(e) => format!("BUILD-ERR:{}", e),
            Ok(re) => run(op, &re, &text, pos, arg),
        })));
        match out {
            Ok(s) => println!("{}", s),
            Err(_) => println!("PANIC"),
        }
    }
}
