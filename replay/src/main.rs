//! Native replay of solver counterexamples against the *unmodified* /repo build.
//!
//! Input (file given as argv[1]): one case per line, tab separated:
//!   op  pattern_hex  casei(0/1)  limit(or -)  text_hex  pos  arg
//! Output: one line per case with the canonical result string.
use fancy_regex::{Captures, NoExpand, Regex, RegexBuilder};
use std::panic::{catch_unwind, AssertUnwindSafe};

fn unhex(s: &str) -> String {
    let b: Vec<u8> = (0..s.len() / 2).map(|i| u8::from_str_radix(&s[2 * i..2 * i + 2], 16).unwrap()).collect();
    String::from_utf8(b).expect("utf8")
}

fn err_name(e: &fancy_regex::Error) -> String {
    match e {
        fancy_regex::Error::RuntimeError(fancy_regex::RuntimeError::StackOverflow) => "StackOverflow".to_string(),
        fancy_regex::Error::RuntimeError(fancy_regex::RuntimeError::BacktrackLimitExceeded) => {
            "BacktrackLimitExceeded".to_string()
        }
        other => format!("{:?}", other),
    }
}

fn caps_canon(c: &Captures) -> String {
    let mut s = String::from("M");
    for i in 0..c.len() {
        match c.get(i) {
            None => s.push_str("[-]"),
            Some(m) => s.push_str(&format!("[{},{}]", m.start(), m.end())),
        }
    }
    s
}

fn build(pattern: &str, casei: bool, limit: Option<usize>) -> Result<Regex, String> {
    let mut b = RegexBuilder::new(pattern);
    if casei {
        b.case_insensitive(true);
    }
    if let Some(l) = limit {
        b.backtrack_limit(l);
    }
    b.build().map_err(|e| format!("{:?}", e))
}

fn run(op: &str, re: &Regex, text: &str, pos: usize, arg: usize) -> String {
    match op {
        "search" => match re.captures_from_pos(text, pos) {
            Ok(Some(c)) => {
                // exercise the accessors the property mentions
                for i in 0..c.len() {
                    if let Some(m) = c.get(i) {
                        let _ = m.as_str();
                    }
                }
                caps_canon(&c)
            }
            Ok(None) => "N".to_string(),
            Err(e) => format!("E:{}", err_name(&e)),
        },
        "find" => match re.find_from_pos(text, pos) {
            Ok(Some(m)) => {
                let _ = m.as_str();
                format!("M[{},{}]", m.start(), m.end())
            }
            Ok(None) => "N".to_string(),
            Err(e) => format!("E:{}", err_name(&e)),
        },
        "is_match" => match re.is_match(text) {
            Ok(b) => format!("{}", b),
            Err(e) => format!("E:{}", err_name(&e)),
        },
        "find_iter" => {
            let mut s = String::new();
            for m in re.find_iter(text) {
                match m {
                    Ok(m) => {
                        let _ = m.as_str();
                        s.push_str(&format!("[{},{}]", m.start(), m.end()))
                    }
                    Err(e) => s.push_str(&format!("E:{};", err_name(&e))),
                }
            }
            s
        }
        "captures_iter" => {
            let mut s = String::new();
            for c in re.captures_iter(text) {
                match c {
                    Ok(c) => {
                        s.push_str(&caps_canon(&c));
                        s.push(';')
                    }
                    Err(e) => s.push_str(&format!("E:{};", err_name(&e))),
                }
            }
            s
        }
        "split" => {
            let mut s = String::new();
            for p in re.split(text) {
                match p {
                    Ok(p) => {
                        let off = p.as_ptr() as usize - text.as_ptr() as usize;
                        s.push_str(&format!("[{},{}]", off, off + p.len()))
                    }
                    Err(e) => s.push_str(&format!("E:{};", err_name(&e))),
                }
            }
            s
        }
        "splitn" => {
            let mut s = String::new();
            for p in re.splitn(text, arg) {
                match p {
                    Ok(p) => {
                        let off = p.as_ptr() as usize - text.as_ptr() as usize;
                        s.push_str(&format!("[{},{}]", off, off + p.len()))
                    }
                    Err(e) => s.push_str(&format!("E:{};", err_name(&e))),
                }
            }
            s
        }
        "replacen_noexpand" | "replacen_str" | "replacen_closure" | "replacen_dollar0" => {
            let r = match op {
                "replacen_noexpand" => re.try_replacen(text, arg, NoExpand("x")),
                "replacen_str" => re.try_replacen(text, arg, "x"),
                "replacen_closure" => re.try_replacen(text, arg, |_: &Captures| "x".to_string()),
                _ => re.try_replacen(text, arg, "<$0>"),
            };
            match r {
                Ok(c) => {
                    let borrowed = matches!(c, std::borrow::Cow::Borrowed(_));
                    format!("{}:{}", if borrowed { "B" } else { "O" }, c.as_bytes().iter().map(|b| format!("{:02x}", b)).collect::<String>())
                }
                Err(e) => format!("E:{}", err_name(&e)),
            }
        }
        "captures_len" => format!("{}", re.captures_len()),
        _ => format!("UNKNOWN-OP {}", op),
    }
}

fn main() {
    std::panic::set_hook(Box::new(|_| {}));
    let path = std::env::args().nth(1).expect("case file");
    let data = std::fs::read_to_string(path).expect("read");
    for line in data.lines() {
        let f: Vec<&str> = line.split('\t').collect();
        if f.len() < 7 {
            println!("BAD-LINE");
            continue;
        }
        let op = f[0];
        let pattern = unhex(f[1]);
        let casei = f[2] == "1";
        let limit = if f[3] == "-" { None } else { Some(f[3].parse::<usize>().unwrap()) };
        let text = unhex(f[4]);
        let pos: usize = f[5].parse().unwrap();
        let arg: usize = f[6].parse().unwrap();
        let out = catch_unwind(AssertUnwindSafe(|| match build(&pattern, casei, limit) {
            Err(e) => format!("BUILD-ERR:{}", e),
            Ok(re) => run(op, &re, &text, pos, arg),
        }));
        match out {
            Ok(s) => println!("{}", s),
            Err(_) => println!("PANIC"),
        }
    }
}
