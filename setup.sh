#!/bin/sh
# Build everything the checks need, offline, from files on disk only.
set -e
cd "$(dirname "$0")"
export CARGO_NET_OFFLINE=true
mkdir -p work evidence/replays
python3 symx/gen.py
(cd work/symx && cargo build --release --bin symx)
(cd replay && CARGO_TARGET_DIR=../work/replay-target cargo build && CARGO_TARGET_DIR=../work/replay-target cargo build --release)
# translator validation (cached by source hash): the repository's tests on the rewritten tree
(cd work/symx && cargo test --release --offline --lib --tests --no-run)
echo setup done
